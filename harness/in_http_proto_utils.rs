//! Mounted inside `aquatic_http_protocol::utils` (private module). C14: percent-coding of
//! 20-byte identifiers against an independent reference.
#![allow(dead_code)]
use super::*;
use std::io::Cursor;

fn hexval(c: u8) -> Option<u8> {
    match c {
        b'0'..=b'9' => Some(c - b'0'),
        b'a'..=b'f' => Some(c - b'a' + 10),
        b'A'..=b'F' => Some(c - b'A' + 10),
        _ => None,
    }
}
fn lower_hex(n: u8) -> u8 {
    if n < 10 {
        b'0' + n
    } else {
        b'a' + (n - 10)
    }
}

/// forall id: urlencode writes exactly "%xy" * 20 (lower-case hex) and urldecode inverts it.
pub fn c14_id_roundtrip() {
    let id: [u8; 20] = kani::any();
    let mut buf = [0u8; 64];
    let mut c = Cursor::new(&mut buf[..]);
    urlencode_20_bytes(id, &mut c).unwrap();
    assert!(c.position() == 60, "urlencoded identifier is 60 bytes");
    let k: usize = kani::any();
    kani::assume(k < 20);
    assert!(buf[3 * k] == b'%', "percent sign");
    assert!(buf[3 * k + 1] == lower_hex(id[k] >> 4), "high nibble");
    assert!(buf[3 * k + 2] == lower_hex(id[k] & 15), "low nibble");
    let s = unsafe { std::str::from_utf8_unchecked(&buf[..60]) };
    let back = urldecode_20_bytes(s);
    match &back {
        Ok(v) => assert!(v[k] == id[k], "urldecode(urlencode(id)) != id"),
        Err(_) => assert!(false, "urldecode rejected urlencode output"),
    }
    std::mem::forget(back);
}

/// A "unit" of an identifier in a query string: a raw char (ASCII other than '%', or a
/// 2-byte char U+0080..U+07FF) or '%' followed by two ASCII bytes.
fn push_unit(buf: &mut [u8; 72], n: &mut usize, classes: u8) -> Option<u8> {
    let mut cls: u8 = kani::any();
    kani::assume(cls < 3);
    // classes == 2: only raw ASCII and %XY units (two-byte chars get their own harness)
    if classes == 2 && cls == 1 {
        cls = 0;
    }
    if cls == 0 {
        let b: u8 = kani::any();
        kani::assume(b < 0x80 && b != b'%');
        buf[*n] = b;
        *n += 1;
        Some(b)
    } else if cls == 1 {
        let cp: u16 = kani::any();
        kani::assume(cp >= 0x80 && cp < 0x800);
        buf[*n] = 0xC0 | (cp >> 6) as u8;
        buf[*n + 1] = 0x80 | (cp & 0x3F) as u8;
        *n += 2;
        if cp <= 255 {
            Some(cp as u8)
        } else {
            None
        }
    } else {
        let x: u8 = kani::any();
        let y: u8 = kani::any();
        kani::assume(x < 0x80 && y < 0x80);
        buf[*n] = b'%';
        buf[*n + 1] = x;
        buf[*n + 2] = y;
        *n += 3;
        match (hexval(x), hexval(y)) {
            (Some(h), Some(l)) => Some(h * 16 + l),
            _ => None,
        }
    }
}

/// urldecode_20_bytes(s) == Ok(v) <=> s consists of exactly 20 well-formed units, v[i] = value
/// of unit i (reference decoder above). N units are generated.
pub fn c14_urldecode_ref<const N: usize>(classes: u8) {
    let mut buf = [0u8; 72];
    let mut n = 0usize;
    let mut vals = [None; N];
    let mut i = 0;
    while i < N {
        vals[i] = push_unit(&mut buf, &mut n, classes);
        i += 1;
    }
    let s = unsafe { std::str::from_utf8_unchecked(&buf[..n]) };
    let r = urldecode_20_bytes(s);
    let mut wellformed = true;
    let mut i = 0;
    while i < N {
        if vals[i].is_none() {
            wellformed = false;
        }
        i += 1;
    }
    match &r {
        Ok(v) => {
            assert!(N >= 20, "identifier of fewer than 20 bytes accepted");
            assert!(N <= 20, "identifier of more than 20 bytes accepted");
            assert!(wellformed, "malformed identifier accepted");
            if N == 20 {
                let k: usize = kani::any();
                kani::assume(k < 20);
                assert!(Some(v[k]) == vals[k], "identifier byte decoded wrongly");
            }
        }
        Err(_) => assert!(!(N == 20 && wellformed), "well-formed 20-byte identifier rejected"),
    }
    kani::cover!(r.is_ok() || N != 20, "accept reachable");
    kani::cover!(r.is_err() || N == 20, "reject reachable");
    std::mem::forget(r);
}


/// 19 fixed raw units ('a') and ONE arbitrary unit (raw ASCII, two-byte char, or %XY) at the
/// front or at the back: cheap (concrete offsets) and covers every single-unit decoding rule
/// inside an otherwise well-formed 20-byte identifier.
pub fn c14_urldecode_one_free(front: bool) {
    let mut buf = [0u8; 72];
    let mut n = 0usize;
    let mut val = None;
    if front {
        val = push_unit(&mut buf, &mut n, 3);
    }
    let mut i = 0;
    while i < 19 {
        buf[n] = b'a';
        n += 1;
        i += 1;
    }
    if !front {
        val = push_unit(&mut buf, &mut n, 3);
    }
    let s = unsafe { std::str::from_utf8_unchecked(&buf[..n]) };
    let r = urldecode_20_bytes(s);
    match &r {
        Ok(v) => {
            assert!(val.is_some(), "malformed identifier accepted");
            let k = if front { 0 } else { 19 };
            assert!(Some(v[k]) == val, "identifier byte decoded wrongly");
            assert!(v[if front { 19 } else { 0 }] == b'a', "fixed byte decoded wrongly");
        }
        Err(_) => assert!(val.is_none(), "well-formed 20-byte identifier rejected"),
    }
    kani::cover!(r.is_ok(), "accepted");
    kani::cover!(r.is_err(), "rejected");
    std::mem::forget(r);
}

/// 19 fixed raw units ('a') followed by a TAIL of exactly T arbitrary ASCII bytes (any byte
/// < 0x80, including '%' - so truncated escapes "%", "%X" and stray text after the 20th unit
/// occur). Reference: split the tail into units at byte level; Ok <=> the tail is exactly one
/// well-formed unit (T == 1 raw, or T == 3 "%XY" with two hex digits). Never panics.
pub fn c14_urldecode_tail<const T: usize>() {
    let mut buf = [0u8; 72];
    let mut n = 0usize;
    while n < 19 {
        buf[n] = b'a';
        n += 1;
    }
    let tail: [u8; T] = kani::any();
    let mut i = 0;
    while i < T {
        kani::assume(tail[i] < 0x80);
        buf[n] = tail[i];
        n += 1;
        i += 1;
    }
    let s = unsafe { std::str::from_utf8_unchecked(&buf[..n]) };
    let r = urldecode_20_bytes(s);
    let want: Option<u8> = if T == 1 && tail[0] != b'%' {
        Some(tail[0])
    } else if T == 3 && tail[0] == b'%' {
        match (hexval(tail[1]), hexval(tail[2])) {
            (Some(h), Some(l)) => Some(h * 16 + l),
            _ => None,
        }
    } else {
        None
    };
    match &r {
        Ok(v) => {
            assert!(want.is_some(), "identifier with a truncated escape / wrong number of units accepted");
            assert!(Some(v[19]) == want && v[0] == b'a', "identifier byte decoded wrongly");
        }
        Err(_) => assert!(want.is_none(), "well-formed 20-byte identifier rejected"),
    }
    kani::cover!(r.is_err(), "rejected");
    std::mem::forget(r);
}

/// Truncated escape at the end (cheap: one symbolic byte, concrete structure):
/// 19 fixed raw units + "%" + one arbitrary ASCII byte, or + "%" alone: always rejected, never panics.
pub fn c14_urldecode_trunc(with_digit: bool) {
    let mut buf = [b'a'; 24];
    buf[19] = b'%';
    let mut n = 20;
    if with_digit {
        let x: u8 = kani::any();
        kani::assume(x < 0x80);
        buf[20] = x;
        n = 21;
    }
    let s = unsafe { std::str::from_utf8_unchecked(&buf[..n]) };
    let r = urldecode_20_bytes(s);
    assert!(r.is_err(), "identifier ending in a truncated percent escape accepted");
    kani::cover!(r.is_err(), "rejected");
    std::mem::forget(r);
}
