//! Mounted inside `aquatic_udp::workers::socket::validator` (guarded `#[path]`).
//! C05: connection ids are bound to the source IP and to the validity window.
//!
//! The keyed BLAKE3 MAC (`ConnectionValidator::hash`) is replaced by an *uninterpreted
//! function realised by memoisation*: equal (time bytes, ip) => equal 4-byte tag; any other
//! input gets an unconstrained fresh tag. Everything else is the real code with all integers
//! at full width.
#![allow(dead_code)]
use super::*;
use std::net::{Ipv4Addr, Ipv6Addr, SocketAddr, SocketAddrV4, SocketAddrV6};

#[derive(Clone, Copy, PartialEq, Eq)]
pub struct Inp {
    t: [u8; 4],
    v4: bool,
    ip: [u8; 16],
}
const MEMO: usize = 4;
static mut MEMO_IN: [Inp; MEMO] = [Inp { t: [0; 4], v4: false, ip: [0; 16] }; MEMO];
static mut MEMO_OUT: [[u8; 4]; MEMO] = [[0; 4]; MEMO];
static mut MEMO_LEN: usize = 0;

fn inp(elapsed: [u8; 4], ip: IpAddr) -> Inp {
    match ip {
        IpAddr::V4(a) => {
            let o = a.octets();
            let mut ip = [0u8; 16];
            ip[0] = o[0];
            ip[1] = o[1];
            ip[2] = o[2];
            ip[3] = o[3];
            Inp { t: elapsed, v4: true, ip }
        }
        IpAddr::V6(a) => Inp { t: elapsed, v4: false, ip: a.octets() },
    }
}

static mut UF_ON: bool = false;
/// `ConnectionValidator::hash` consults this (guarded hook) and, when on, returns `uf_hash`
/// instead of running BLAKE3. A hook rather than `#[kani::stub]` so that native replay of a
/// counterexample (cargo kani playback) takes exactly the same path.
pub fn uf_enabled() -> bool {
    unsafe { UF_ON }
}
pub fn uf_on() {
    unsafe {
        UF_ON = true;
        MEMO_LEN = 0;
    }
}

/// uninterpreted keyed hash
pub fn uf_hash(_v: &mut ConnectionValidator, elapsed: [u8; 4], ip_addr: IpAddr) -> [u8; 4] {
    let x = inp(elapsed, ip_addr);
    unsafe {
        let mut i = 0;
        while i < MEMO {
            if i < MEMO_LEN && MEMO_IN[i] == x {
                return MEMO_OUT[i];
            }
            i += 1;
        }
        assert!(MEMO_LEN < MEMO, "model capacity: MAC memo table");
        let out: [u8; 4] = kani::any();
        MEMO_IN[MEMO_LEN] = x;
        MEMO_OUT[MEMO_LEN] = out;
        MEMO_LEN += 1;
        out
    }
}

/// the tag the UF assigned to (elapsed, ip), if it was ever queried
pub fn uf_lookup(elapsed: [u8; 4], ip_addr: IpAddr) -> Option<[u8; 4]> {
    let x = inp(elapsed, ip_addr);
    unsafe {
        let mut i = 0;
        while i < MEMO {
            if i < MEMO_LEN && MEMO_IN[i] == x {
                return Some(MEMO_OUT[i]);
            }
            i += 1;
        }
    }
    None
}

pub fn any_src() -> CanonicalSocketAddr {
    let port: u16 = kani::any();
    if kani::any() {
        let o: [u8; 4] = kani::any();
        CanonicalSocketAddr::new(SocketAddr::V4(SocketAddrV4::new(Ipv4Addr::from(o), port)))
    } else {
        let o: [u8; 16] = kani::any();
        CanonicalSocketAddr::new(SocketAddr::V6(SocketAddrV6::new(Ipv6Addr::from(o), port, 0, 0)))
    }
}

/// validator with arbitrary max_connection_age at clock value `now`
pub fn mk_validator(max_connection_age: u32, now: u32) -> ConnectionValidator {
    ConnectionValidator {
        // never read: `hash` is replaced by the UF, `update_elapsed` is not called
        start_time: unsafe { std::mem::zeroed() },
        max_connection_age: max_connection_age.into(),
        keyed_hasher: unsafe { std::mem::zeroed() },
        seconds_since_start: now,
    }
}

pub fn set_now(v: &mut ConnectionValidator, now: u32) {
    v.seconds_since_start = now;
}

/// An id issued to `src` at t_issue is accepted from src2 at t_check
///   <=> tag(t_issue, ip2) == tag(t_issue, ip)  (forced when ip2 == ip, a 2^-32 collision otherwise)
///       and t_issue + max_age > t_check and t_issue <= t_check + 60   (no wrap-around anywhere)
pub fn c05_window() {
    uf_on();
    let max_age: u32 = kani::any();
    let t_issue: u32 = kani::any();
    let t_check: u32 = kani::any();
    let mut v = mk_validator(max_age, t_issue);
    let src = any_src();
    let id = v.create_connection_id(src);
    // the id embeds the issue time in its first four bytes
    let b = id.0.get().to_ne_bytes();
    assert!(u32::from_ne_bytes([b[0], b[1], b[2], b[3]]) == t_issue, "issue time not embedded in the id");
    set_now(&mut v, t_check);
    let src2 = any_src();
    let ok = v.connection_id_valid(src2, id);
    let in_window = (t_issue as u128 + max_age as u128 > t_check as u128) && (t_issue as u128 <= t_check as u128 + 60);
    let same_ip = src.get().ip() == src2.get().ip();
    let tag1 = uf_lookup(t_issue.to_ne_bytes(), src.get().ip());
    let tag2 = uf_lookup(t_issue.to_ne_bytes(), src2.get().ip());
    assert!(tag1.is_some() && tag2.is_some(), "MAC must be computed over (issue time, source ip) on issue and on check");
    if same_ip {
        // same IP, any port: accepted exactly inside the window
        assert!(ok == in_window, "id from the issuing IP must be accepted exactly while issue+max_age > now and issue <= now+60");
    } else {
        assert!(!ok || tag1 == tag2, "id accepted from another IP without a MAC collision");
        assert!(!ok || in_window, "id accepted outside its validity window");
    }
    kani::cover!(ok && same_ip, "accepted");
    kani::cover!(!ok && same_ip && t_check >= t_issue, "expired");
    kani::cover!(!ok && same_ip && t_check < t_issue, "far future");
    kani::cover!(ok && same_ip && t_check < t_issue, "slightly in the future accepted");
    kani::cover!(max_age == 0, "zero age");
    kani::cover!(max_age == u32::MAX && t_issue == u32::MAX, "extremes");
}

/// Arbitrary (forged / altered / stale) id: accepted => its last four bytes equal the MAC of
/// (its first four bytes, source ip) and its embedded time lies in the window.
pub fn c05_forged() {
    uf_on();
    let max_age: u32 = kani::any();
    let now: u32 = kani::any();
    let mut v = mk_validator(max_age, now);
    let src = any_src();
    let raw: i64 = kani::any();
    let ok = v.connection_id_valid(src, ConnectionId::new(raw));
    let b = raw.to_ne_bytes();
    let t = [b[0], b[1], b[2], b[3]];
    let tag = [b[4], b[5], b[6], b[7]];
    let te = u32::from_ne_bytes(t);
    let in_window = (te as u128 + max_age as u128 > now as u128) && (te as u128 <= now as u128 + 60);
    let mac = uf_lookup(t, src.get().ip());
    assert!(mac.is_some(), "MAC must be computed over the id's time bytes and the source ip");
    assert!(ok == (mac == Some(tag) && in_window), "arbitrary id accepted <=> MAC matches and embedded time in window");
    // altering any bit of the tag of an otherwise valid id makes it invalid (instance of the above)
    kani::cover!(ok, "a forged id can only be accepted with the right MAC");
    kani::cover!(!ok && mac == Some(tag), "right MAC, outside window");
}
