//! Compiles aquatic_ws's glommio-free source files *in place* (`#[path]` mounts of /repo's
//! files at the crate-relative module paths they expect) because the aquatic_ws crate itself
//! cannot be built by Kani's toolchain (glommio -> backtrace E0659). Harness bodies are
//! mounted inside `workers::swarm::storage` by a guarded line in that file.
#![allow(dead_code, unused_imports)]
#[path = "/repo/crates/ws/src/common.rs"]
pub mod common;
#[path = "/repo/crates/ws/src/config.rs"]
pub mod config;
pub mod workers {
    pub mod swarm {
        #[path = "/repo/crates/ws/src/workers/swarm/storage.rs"]
        pub mod storage;
    }
}

#[cfg(kani)]
mod c08;
#[cfg(kani)]
mod c03;
