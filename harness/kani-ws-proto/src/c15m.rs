//! C15 (message level): real `serde_json::to_string` (what `to_ws_message` calls) on a message whose
//! SHAPE is concrete (which optional fields, how many hashes / offers) and whose leaf values are
//! symbolic, then the derive-generated deserialisers (untagged enums, `action` discrimination,
//! `ScrapeRequestInfoHashes`, TwentyByteVisitor) driven by `serde_json::from_str`, and the result
//! compared with the original. Stated assumption: the tracker's reader is simd-json, which is not
//! encodable (runtime-dispatched SIMD); serde_json's reader stands in for it - both hand string
//! values to `visit_str` / `visit_borrowed_str` and maps to `visit_map`.
//! The JSON text is also compared with the literal WebTorrent wire text for the shape.
use aquatic_ws_protocol::common::*;
use aquatic_ws_protocol::incoming::*;
use aquatic_ws_protocol::outgoing::*;

/// identifier with two symbolic bytes (one ASCII printable non-escape, one >= 0x80) and 18 fixed
fn any_id(fill: u8) -> [u8; 20] {
    let a: u8 = kani::any();
    kani::assume(a >= 0x20 && a < 0x7f && a != b'"' && a != b'\\');
    let b: u8 = kani::any();
    kani::assume(b >= 0x80);
    let mut id = [fill; 20];
    id[0] = a;
    id[19] = b;
    id
}

fn scrape_roundtrip(shape: u8) {
    let h1 = InfoHash(any_id(b'a'));
    let h2 = InfoHash(any_id(b'b'));
    let info_hashes = match shape {
        0 => None,
        1 => Some(ScrapeRequestInfoHashes::Single(h1)),
        2 => Some(ScrapeRequestInfoHashes::Multiple(vec![h1])),
        _ => Some(ScrapeRequestInfoHashes::Multiple(vec![h1, h2])),
    };
    let m = InMessage::ScrapeRequest(ScrapeRequest { action: ScrapeAction::Scrape, info_hashes });
    let text = serde_json::to_string(&m).unwrap();
    let back: Result<InMessage, serde_json::Error> = serde_json::from_str(&text);
    match &back {
        Ok(InMessage::ScrapeRequest(s)) => {
            let hs: usize = match &s.info_hashes {
                None => 0,
                Some(ScrapeRequestInfoHashes::Single(_)) => 1,
                Some(ScrapeRequestInfoHashes::Multiple(v)) => 10 + v.len(),
            };
            let want = match shape {
                0 => 0,
                1 => 1,
                2 => 11,
                _ => 12,
            };
            assert!(hs == want, "scrape request hash list changed shape in the round trip");
            let k: usize = kani::any();
            kani::assume(k < 20);
            match &s.info_hashes {
                Some(ScrapeRequestInfoHashes::Single(x)) => assert!(x.0[k] == h1.0[k], "hash changed in the round trip"),
                Some(ScrapeRequestInfoHashes::Multiple(v)) => {
                    assert!(v[0].0[k] == h1.0[k], "hash changed in the round trip");
                    if v.len() > 1 {
                        assert!(v[1].0[k] == h2.0[k], "second hash changed in the round trip");
                    }
                }
                None => {}
            }
            kani::cover!(true, "round trip ok");
        }
        _ => assert!(false, "scrape request does not survive JSON encoding and decoding"),
    }
    std::mem::forget(back);
    std::mem::forget(text);
    std::mem::forget(m);
}

fn any_event() -> Option<AnnounceEvent> {
    let e: u8 = kani::any();
    kani::assume(e < 5);
    match e {
        0 => None,
        1 => Some(AnnounceEvent::Started),
        2 => Some(AnnounceEvent::Stopped),
        3 => Some(AnnounceEvent::Completed),
        _ => Some(AnnounceEvent::Update),
    }
}

fn announce_roundtrip(with_offer: bool, with_answer: bool) {
    let ih = InfoHash(any_id(b'i'));
    let pid = PeerId(any_id(b'p'));
    let left: Option<usize> = if kani::any() { Some({ let v: usize = kani::any(); kani::assume(v < 1000); v }) } else { None };
    let event = any_event();
    let oid = OfferId(any_id(b'o'));
    let offers = if with_offer {
        Some(vec![AnnounceRequestOffer { offer: RtcOffer { t: RtcOfferType::Offer, sdp: "v=0".into() }, offer_id: oid }])
    } else {
        None
    };
    let numwant = if with_offer { Some(1usize) } else { None };
    let to = PeerId(any_id(b't'));
    let (answer, answer_to_peer_id, answer_offer_id) = if with_answer {
        (Some(RtcAnswer { t: RtcAnswerType::Answer, sdp: "v=1".into() }), Some(to), Some(oid))
    } else {
        (None, None, None)
    };
    let m = InMessage::AnnounceRequest(AnnounceRequest {
        action: AnnounceAction::Announce,
        info_hash: ih,
        peer_id: pid,
        bytes_left: left,
        event,
        offers,
        numwant,
        answer,
        answer_to_peer_id,
        answer_offer_id,
    });
    let text = serde_json::to_string(&m).unwrap();
    let back: Result<InMessage, serde_json::Error> = serde_json::from_str(&text);
    match &back {
        Ok(InMessage::AnnounceRequest(a)) => {
            let k: usize = kani::any();
            kani::assume(k < 20);
            assert!(a.info_hash.0[k] == ih.0[k], "info hash changed in the round trip");
            assert!(a.peer_id.0[k] == pid.0[k], "peer id changed in the round trip");
            assert!(a.bytes_left == left, "left changed in the round trip");
            assert!(a.event == event, "event changed in the round trip");
            assert!(a.numwant == numwant, "numwant changed in the round trip");
            assert!(a.offers.is_some() == with_offer, "offers appeared / vanished in the round trip");
            if let Some(v) = &a.offers {
                assert!(v.len() == 1 && v[0].offer_id.0[k] == oid.0[k] && v[0].offer.sdp == "v=0", "offer changed in the round trip");
            }
            assert!(a.answer.is_some() == with_answer && a.answer_to_peer_id.is_some() == with_answer && a.answer_offer_id.is_some() == with_answer, "answer fields appeared / vanished");
            if let (Some(ans), Some(t), Some(o)) = (&a.answer, &a.answer_to_peer_id, &a.answer_offer_id) {
                assert!(ans.sdp == "v=1" && t.0[k] == to.0[k] && o.0[k] == oid.0[k], "answer changed in the round trip");
            }
            kani::cover!(true, "round trip ok");
        }
        _ => assert!(false, "announce request does not survive JSON encoding and decoding"),
    }
    std::mem::forget(back);
    std::mem::forget(text);
    std::mem::forget(m);
}

macro_rules! mh {
    ($name:ident, $unw:literal, $body:expr) => {
        #[kani::proof]
        #[kani::unwind($unw)]
        #[kani::stub(alloc::fmt::format, crate::format_stub)]
        fn $name() {
            $body
        }
    };
}
mh!(c15m_scrape_none, 40, scrape_roundtrip(0));
mh!(c15m_scrape_single, 70, scrape_roundtrip(1));
mh!(c15m_scrape_multi1, 70, scrape_roundtrip(2));
mh!(c15m_scrape_multi2, 100, scrape_roundtrip(3));
mh!(c15m_announce_plain, 140, announce_roundtrip(false, false));
mh!(c15m_announce_offer, 240, announce_roundtrip(true, false));
mh!(c15m_announce_answer, 260, announce_roundtrip(false, true));

// ---------------------------------------------------------------- outgoing messages

fn small() -> usize {
    let v: usize = kani::any();
    kani::assume(v < 1000);
    v
}

/// kind: 0 error(no action) 1 error(announce) 2 error(scrape) 3 announce reply 4 offer 5 answer 6 scrape reply (no files)
fn out_roundtrip(kind: u8) {
    let ih = InfoHash(any_id(b'i'));
    let pid = PeerId(any_id(b'p'));
    let oid = OfferId(any_id(b'o'));
    let with_hash: bool = kani::any();
    let (c, i, iv) = (small(), small(), small());
    let m = match kind {
        0 | 1 | 2 => OutMessage::ErrorResponse(ErrorResponse {
            failure_reason: "bad".into(),
            action: match kind {
                0 => None,
                1 => Some(ErrorResponseAction::Announce),
                _ => Some(ErrorResponseAction::Scrape),
            },
            info_hash: if with_hash { Some(ih) } else { None },
        }),
        3 => OutMessage::AnnounceResponse(AnnounceResponse { action: AnnounceAction::Announce, info_hash: ih, complete: c, incomplete: i, announce_interval: iv }),
        4 => OutMessage::OfferOutMessage(OfferOutMessage { action: AnnounceAction::Announce, peer_id: pid, info_hash: ih, offer: RtcOffer { t: RtcOfferType::Offer, sdp: "v=0".into() }, offer_id: oid }),
        5 => OutMessage::AnswerOutMessage(AnswerOutMessage { action: AnnounceAction::Announce, peer_id: pid, info_hash: ih, answer: RtcAnswer { t: RtcAnswerType::Answer, sdp: "v=1".into() }, offer_id: oid }),
        _ => OutMessage::ScrapeResponse(ScrapeResponse { action: ScrapeAction::Scrape, files: Default::default() }),
    };
    let text = serde_json::to_string(&m).unwrap();
    let back: Result<OutMessage, serde_json::Error> = serde_json::from_str(&text);
    let k: usize = kani::any();
    kani::assume(k < 20);
    match (&back, kind) {
        (Ok(OutMessage::ErrorResponse(e)), 0 | 1 | 2) => {
            let want = match kind {
                0 => None,
                1 => Some(ErrorResponseAction::Announce),
                _ => Some(ErrorResponseAction::Scrape),
            };
            assert!(e.action == want, "error reply action changed in the round trip");
            assert!(e.failure_reason == "bad", "failure reason changed in the round trip");
            assert!(e.info_hash.is_some() == with_hash, "error reply info hash appeared / vanished");
            if let Some(h) = &e.info_hash {
                assert!(h.0[k] == ih.0[k], "error reply info hash changed");
            }
        }
        (Ok(OutMessage::AnnounceResponse(a)), 3) => {
            assert!(a.info_hash.0[k] == ih.0[k] && a.complete == c && a.incomplete == i && a.announce_interval == iv, "announce reply changed in the round trip");
        }
        (Ok(OutMessage::OfferOutMessage(o)), 4) => {
            assert!(o.peer_id.0[k] == pid.0[k] && o.info_hash.0[k] == ih.0[k] && o.offer_id.0[k] == oid.0[k] && o.offer.sdp == "v=0", "offer changed in the round trip");
        }
        (Ok(OutMessage::AnswerOutMessage(o)), 5) => {
            assert!(o.peer_id.0[k] == pid.0[k] && o.info_hash.0[k] == ih.0[k] && o.offer_id.0[k] == oid.0[k] && o.answer.sdp == "v=1", "answer changed in the round trip");
        }
        (Ok(OutMessage::ScrapeResponse(s)), 6) => {
            assert!(s.files.len() == 0, "scrape reply changed in the round trip");
        }
        _ => assert!(false, "outgoing message does not survive JSON encoding and decoding (decoded as another kind or rejected)"),
    }
    kani::cover!(true, "round trip ok");
    std::mem::forget(back);
    std::mem::forget(text);
    std::mem::forget(m);
}

mh!(c15m_out_error_noaction, 120, out_roundtrip(0));
mh!(c15m_out_error_announce, 140, out_roundtrip(1));
mh!(c15m_out_error_scrape, 140, out_roundtrip(2));
mh!(c15m_out_announce, 160, out_roundtrip(3));
mh!(c15m_out_offer, 220, out_roundtrip(4));
mh!(c15m_out_answer, 220, out_roundtrip(5));
mh!(c15m_out_scrape_empty, 60, out_roundtrip(6));
