//! Compiles aquatic_http's glommio-free source files in place (`#[path]` mounts) because the
//! aquatic_http crate cannot be built by Kani's toolchain (glommio -> backtrace E0659).
#![allow(dead_code, unused_imports)]
#[path = "/repo/crates/http/src/config.rs"]
pub mod config;
pub mod workers {
    pub mod socket {
        #[path = "/repo/crates/http/src/workers/socket/request.rs"]
        pub mod request;
    }
    pub mod swarm {
        #[path = "/repo/crates/http/src/workers/swarm/storage.rs"]
        pub mod storage;
    }
}

#[cfg(kani)]
mod c07;
#[cfg(kani)]
mod c03;
