//! C10 / C11 / C20 / C01: one real cleaning pass (TorrentMapShards::clean_and_get_statistics).
use aquatic_udp::swarm::verif_harness as h;
use aquatic_udp_protocol::{Ipv4AddrBytes, Ipv6AddrBytes};

macro_rules! clean {
    ($name:ident, $ip:ty, $n:literal, $b:literal, $unw:literal, $large:literal, $pc:literal) => {
        #[kani::proof]
        #[kani::unwind($unw)]
        fn $name() {
            h::clean_step::<$ip, $n, $b>($large, $pc);
        }
    };
}
clean!(clean_v4_small_n0, Ipv4AddrBytes, 0, 1, 2, false, true);
clean!(clean_v4_small_n1, Ipv4AddrBytes, 1, 2, 3, false, true);
clean!(clean_v4_small_n2, Ipv4AddrBytes, 2, 3, 5, false, true);
clean!(clean_v4_large_n3, Ipv4AddrBytes, 3, 4, 6, true, true);
clean!(clean_v4_large_n4, Ipv4AddrBytes, 4, 5, 7, true, true);
clean!(clean_v4_large_n3_nostats, Ipv4AddrBytes, 3, 4, 6, true, false);
clean!(clean_v6_small_n2, Ipv6AddrBytes, 2, 3, 5, false, true);
clean!(clean_v6_large_n3, Ipv6AddrBytes, 3, 4, 6, true, true);


macro_rules! cleanmaps {
    ($name:ident, $n4:literal, $b4:literal, $n6:literal, $b6:literal, $unw:literal, $l4:literal, $l6:literal) => {
        #[kani::proof]
        #[kani::unwind($unw)]
        #[kani::stub(crossbeam_channel::Sender::try_send, aquatic_udp::swarm::verif_harness::log_try_send)]
        fn $name() {
            h::clean_maps_step::<$n4, $b4, $n6, $b6>($l4, $l6);
        }
    };
}
cleanmaps!(cleanmaps_1_2, 1, 2, 2, 3, 5, false, false);
cleanmaps!(cleanmaps_3_2, 3, 4, 2, 3, 6, true, false);
cleanmaps!(cleanmaps_2_3, 2, 3, 3, 4, 6, false, true);


macro_rules! leaf {
    ($name:ident, $ip:ty, $n:literal, $b:literal, $unw:literal, $large:literal, $pc:literal) => {
        #[kani::proof]
        #[kani::unwind($unw)]
        fn $name() {
            h::peermap_clean_leaf::<$ip, $n, $b>($large, $pc);
        }
    };
}
// peer_clients off: pushing the large StatisticsMessage enum into a heap Vec is what makes the
// statistics variants expensive for CBMC (30+ GB); they are separate harnesses
leaf!(leaf_clean_v4_small_n0, Ipv4AddrBytes, 0, 1, 3, false, false);
leaf!(leaf_clean_v4_small_n1, Ipv4AddrBytes, 1, 2, 4, false, false);
leaf!(leaf_clean_v4_small_n2, Ipv4AddrBytes, 2, 3, 5, false, false);
leaf!(leaf_clean_v4_large_n3, Ipv4AddrBytes, 3, 4, 6, true, false);
leaf!(leaf_clean_v4_large_n4, Ipv4AddrBytes, 4, 5, 7, true, false);
leaf!(leaf_clean_v6_large_n3, Ipv6AddrBytes, 3, 4, 6, true, false);
leaf!(leaf_cleanstats_v4_small_n1, Ipv4AddrBytes, 1, 2, 4, false, true);
leaf!(leaf_cleanstats_v4_large_n3, Ipv4AddrBytes, 3, 4, 6, true, true);

#[cfg(verif_pb_clean)]
include!(env!("VERIF_PLAYBACK_FILE"));
