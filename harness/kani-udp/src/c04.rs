//! C04 (bounded sequentialisation): one operation runs to completion inside a lock-free gap of
//! another; model locks assert mutual exclusion, lock order and that no lock is held in a gap.
use aquatic_udp::swarm::verif_harness as h;

macro_rules! c04 {
    ($name:ident, $unw:literal, $call:expr) => {
        #[kani::proof]
        #[kani::unwind($unw)]
        #[kani::stub(crossbeam_channel::Sender::try_send, aquatic_udp::swarm::verif_harness::log_try_send)]
        fn $name() {
            $call;
        }
    };
}
// injected op kind: 0 clean, 1 announce, 2 scrape; pre-state: 0 absent, 1 present-empty, 2 one peer
c04!(c04_announce_gap_clean_absent, 4, h::c04_announce_gap(0, 0));
c04!(c04_announce_gap_clean_empty, 4, h::c04_announce_gap(0, 1));
c04!(c04_announce_gap_clean_one, 4, h::c04_announce_gap(0, 2));
c04!(c04_announce_gap_announce_empty, 4, h::c04_announce_gap(1, 1));
c04!(c04_announce_gap_announce_one, 5, h::c04_announce_gap(1, 2));
c04!(c04_announce_gap_scrape_one, 4, h::c04_announce_gap(2, 2));
c04!(c04_clean_gap_phase1, 4, h::c04_clean_gap(3));
c04!(c04_clean_gap_phase2, 4, h::c04_clean_gap(4));

#[cfg(verif_pb_c04)]
include!(env!("VERIF_PLAYBACK_FILE"));
