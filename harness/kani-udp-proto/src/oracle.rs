//! Independent BEP 15 reference: explicit offsets, explicit big-endian arithmetic.

pub const PROTOCOL_ID: u64 = 0x0000_0417_2710_1980;

pub fn be16(b: &[u8], o: usize) -> u16 {
    ((b[o] as u16) << 8) | (b[o + 1] as u16)
}
pub fn be32(b: &[u8], o: usize) -> u32 {
    ((b[o] as u32) << 24) | ((b[o + 1] as u32) << 16) | ((b[o + 2] as u32) << 8) | (b[o + 3] as u32)
}
pub fn be64(b: &[u8], o: usize) -> u64 {
    ((be32(b, o) as u64) << 32) | (be32(b, o + 4) as u64)
}
pub fn put16(b: &mut [u8], o: usize, v: u16) {
    b[o] = (v >> 8) as u8;
    b[o + 1] = v as u8;
}
pub fn put32(b: &mut [u8], o: usize, v: u32) {
    b[o] = (v >> 24) as u8;
    b[o + 1] = (v >> 16) as u8;
    b[o + 2] = (v >> 8) as u8;
    b[o + 3] = v as u8;
}
pub fn put64(b: &mut [u8], o: usize, v: u64) {
    put32(b, o, (v >> 32) as u32);
    put32(b, o + 4, v as u32);
}

/// BEP 15 announce request offsets.
pub mod ann {
    pub const CONNECTION_ID: usize = 0;
    pub const ACTION: usize = 8;
    pub const TRANSACTION_ID: usize = 12;
    pub const INFO_HASH: usize = 16;
    pub const PEER_ID: usize = 36;
    pub const DOWNLOADED: usize = 56;
    pub const LEFT: usize = 64;
    pub const UPLOADED: usize = 72;
    pub const EVENT: usize = 80;
    pub const IP: usize = 84;
    pub const KEY: usize = 88;
    pub const NUM_WANT: usize = 92;
    pub const PORT: usize = 96;
    pub const LEN: usize = 98;
}

/// What BEP 15 says a request datagram is. `None` = must be rejected.
#[derive(PartialEq, Eq, Clone, Copy, Debug)]
pub enum Kind {
    Connect,
    Announce,
    Scrape { hashes: usize },
    /// rejected, but the tracker knows connection and transaction ids (error reply possible)
    RejectSendable,
    Reject,
}

pub fn classify(b: &[u8]) -> Kind {
    if b.len() < 12 {
        return Kind::Reject;
    }
    match be32(b, 8) {
        0 => {
            if b.len() >= 16 && be64(b, 0) == PROTOCOL_ID {
                Kind::Connect
            } else {
                Kind::Reject
            }
        }
        1 => {
            if b.len() < ann::LEN {
                return Kind::Reject;
            }
            if be32(b, ann::EVENT) > 3 {
                return Kind::Reject;
            }
            if be16(b, ann::PORT) == 0 {
                return Kind::RejectSendable;
            }
            Kind::Announce
        }
        2 => {
            if b.len() < 16 {
                return Kind::Reject;
            }
            let rest = b.len() - 16;
            if rest == 0 || rest % 20 != 0 {
                return Kind::RejectSendable;
            }
            Kind::Scrape { hashes: rest / 20 }
        }
        _ => Kind::Reject,
    }
}
