//! C03: CanonicalSocketAddr strips exactly the IPv4-mapped prefix and preserves everything else.
use aquatic_common::CanonicalSocketAddr;
use std::net::{IpAddr, Ipv4Addr, Ipv6Addr, SocketAddr, SocketAddrV4, SocketAddrV6};

#[kani::proof]
#[kani::unwind(18)]
fn c03_canonical_v4_identity() {
    let o: [u8; 4] = kani::any();
    let port: u16 = kani::any();
    let a = SocketAddr::V4(SocketAddrV4::new(Ipv4Addr::from(o), port));
    let c = CanonicalSocketAddr::new(a);
    assert!(c.is_ipv4(), "v4 source must stay v4");
    assert!(c.get() == a, "v4 source must be stored unchanged");
    assert!(c.get_ipv4() == Some(a), "get_ipv4 of v4 source");
    match c.get_ipv6_mapped() {
        SocketAddr::V6(m) => {
            let b = m.ip().octets();
            assert!(b[10] == 0xff && b[11] == 0xff && b[12] == o[0] && b[13] == o[1] && b[14] == o[2] && b[15] == o[3], "mapped form embeds the v4 octets");
            let i: usize = kani::any();
            kani::assume(i < 10);
            assert!(b[i] == 0, "mapped form prefix is zero");
            assert!(m.port() == port, "mapped form keeps the port");
            // and canonicalising the mapped form gives the same peer back (one and the same IPv4 peer)
            assert!(CanonicalSocketAddr::new(SocketAddr::V6(m)) == c, "dual-stack and plain IPv4 source are the same peer");
        }
        _ => assert!(false, "get_ipv6_mapped must return v6"),
    }
}

#[kani::proof]
#[kani::unwind(18)]
fn c03_canonical_v6_total() {
    let o: [u8; 16] = kani::any();
    let port: u16 = kani::any();
    let flow: u32 = kani::any();
    let scope: u32 = kani::any();
    let a6 = SocketAddrV6::new(Ipv6Addr::from(o), port, flow, scope);
    let c = CanonicalSocketAddr::new(SocketAddr::V6(a6));
    // reference: mapped <=> first 80 bits zero, next 16 bits ones
    let mut mapped = o[10] == 0xff && o[11] == 0xff;
    let mut i = 0;
    while i < 10 {
        if o[i] != 0 {
            mapped = false;
        }
        i += 1;
    }
    match c.get() {
        SocketAddr::V4(v4) => {
            assert!(mapped, "non-mapped v6 source turned into v4");
            let q = v4.ip().octets();
            assert!(q[0] == o[12] && q[1] == o[13] && q[2] == o[14] && q[3] == o[15], "embedded v4 octets");
            assert!(v4.port() == port, "port preserved");
            assert!(c.is_ipv4(), "is_ipv4 agrees");
        }
        SocketAddr::V6(v6) => {
            assert!(!mapped, "v4-mapped v6 source not canonicalised");
            assert!(v6.ip().octets() == o, "v6 octets preserved");
            assert!(v6.port() == port, "port preserved");
            assert!(!c.is_ipv4() && c.get_ipv4().is_none(), "is_ipv4 agrees");
            assert!(c.get_ipv6_mapped() == SocketAddr::V6(v6), "v6 unchanged by get_ipv6_mapped");
        }
    }
    kani::cover!(mapped, "mapped case");
    kani::cover!(!mapped && o[10] == 0xff && o[11] == 0xff, "near-mapped case");
    let _ = IpAddr::V4(Ipv4Addr::UNSPECIFIED);
}

#[cfg(verif_pb_c03)]
include!(env!("VERIF_PLAYBACK_FILE"));
