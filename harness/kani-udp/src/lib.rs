//! Kani proof wrappers over the real `aquatic_udp` crate (bodies are mounted inside the crate's
//! own modules so that they can reach private items; see /verif/harness/in_udp_*.rs).
#![allow(dead_code)]
#[cfg(kani)]
mod c01;

#[cfg(kani)]
pub fn backtrace_stub() -> std::backtrace::Backtrace {
    std::backtrace::Backtrace::disabled()
}
#[cfg(kani)]
mod c05;
#[cfg(kani)]
mod clean;
#[cfg(kani)]
mod c06;

/// `constant_time_eq` hides its loop from the optimiser with inline asm, which Kani cannot
/// model; its functional contract is plain slice equality.
#[cfg(kani)]
pub fn ct_eq_stub(a: &[u8], b: &[u8]) -> bool {
    if a.len() != b.len() {
        return false;
    }
    let mut eq = true;
    let mut i = 0;
    while i < a.len() {
        if a[i] != b[i] {
            eq = false;
        }
        i += 1;
    }
    eq
}
#[cfg(kani)]
mod c04;
