//! Mounted inside `aquatic_udp::workers::socket::mio` (guarded). C06 / C11: the request/reply
//! contract of `WorkerSharedData::handle_request` with the connection-id MAC as an
//! uninterpreted function and real torrent maps (one shard per family, initially empty).
#![allow(dead_code)]
use super::*;
use crate::swarm::verif_harness as sw;
use crate::workers::socket::validator::verif_harness as vh;
use aquatic_common::access_list::{AccessList, AccessListArcSwap, AccessListMode};
use std::sync::Arc;

pub fn mk_shared(mode: AccessListMode, listed: Option<[u8; 20]>, max_age: u32, now: u32, peer_deadline: u32) -> WorkerSharedData {
    let config = sw::mk_config(4, false, mode);
    let mut list = AccessList::default();
    if let Some(h) = listed {
        list.insert_raw_for_verif(h);
    }
    let access_list = Arc::new(AccessListArcSwap::new(Arc::new(list)));
    let shared_state = State {
        access_list: access_list.clone(),
        torrent_maps: sw::mk_torrent_maps(),
        server_start_instant: aquatic_common::ServerStartInstant::new(),
    };
    let (statistics_sender, rx) = crossbeam_channel::unbounded();
    std::mem::forget(rx);
    WorkerSharedData {
        config,
        shared_state,
        statistics: Default::default(),
        statistics_sender,
        access_list_cache: create_access_list_cache(&access_list),
        validator: vh::mk_validator(max_age, now),
        buffer: [0; BUFFER_SIZE],
        rng: sw::any_rng(),
        peer_valid_until: ValidUntil::new_raw(aquatic_common::SecondsSinceServerStart::new_raw(peer_deadline)),
    }
}

fn expected_valid(id: ConnectionId, src: CanonicalSocketAddr, max_age: u32, now: u32) -> bool {
    let b = id.0.get().to_ne_bytes();
    let t = [b[0], b[1], b[2], b[3]];
    let tag = [b[4], b[5], b[6], b[7]];
    let te = u32::from_ne_bytes(t);
    let in_window = (te as u128 + max_age as u128 > now as u128) && (te as u128 <= now as u128 + 60);
    vh::uf_lookup(t, src.get().ip()) == Some(tag) && in_window
}

struct Env {
    shared: WorkerSharedData,
    src: CanonicalSocketAddr,
    tid: i32,
    mode: AccessListMode,
    listed: Option<[u8; 20]>,
    max_age: u32,
    now: u32,
}

fn env() -> Env {
    aquatic_common::verif_shims::set_mock_clock(Some(0));
    vh::uf_on();
    let mode = sw::any_mode();
    let listed: Option<[u8; 20]> = if kani::any() { Some(kani::any()) } else { None };
    let max_age: u32 = kani::any();
    let now: u32 = kani::any();
    let shared = mk_shared(mode, listed, max_age, now, kani::any());
    Env { shared, src: vh::any_src(), tid: kani::any(), mode, listed, max_age, now }
}

pub fn c06_connect() {
    let Env { mut shared, src, tid, mode, listed, max_age, now } = env();
    let _ = (&mode, &listed, &max_age, &now);
        let r = shared.handle_request(Request::Connect(ConnectRequest { transaction_id: TransactionId::new(tid) }), src);
        match r {
            Some(Response::Connect(c)) => {
                let (ct, cid) = (c.transaction_id, c.connection_id);
                assert!(ct.0.get() == tid, "connect reply must echo the transaction id");
                // the issued id is valid for this source right now iff max_age > 0
                let ok = shared.validator.connection_id_valid(src, cid);
                assert!(ok == (max_age > 0), "freshly issued connection id must be valid for its source (unless max age is 0)");
            }
            _ => assert!(false, "connect request must get exactly a connect reply"),
        }
        assert!(sw::torrent_count(&shared.shared_state.torrent_maps) == 0, "connect must not create state");

    std::mem::forget(shared);
}

pub fn c06_announce() {
    let Env { mut shared, src, tid, mode, listed, max_age, now } = env();
    let _ = (&mode, &listed, &max_age, &now);
        let mut req = sw::any_announce(kani::any());
        req.transaction_id = TransactionId::new(tid);
        let cid = req.connection_id;
        let ih = req.info_hash;
        let r = shared.handle_request(Request::Announce(req), src);
        let valid = expected_valid(cid, src, max_age, now);
        let member = listed == Some(ih.0);
        let allowed = match mode {
            AccessListMode::Allow => member,
            AccessListMode::Deny => !member,
            AccessListMode::Off => true,
        };
        match &r {
            None => assert!(!valid, "announce with a valid connection id got no reply"),
            Some(Response::AnnounceIpv4(a)) => {
                assert!(valid, "announce reply without a valid connection id");
                assert!(allowed, "forbidden info hash was announced");
                assert!(src.is_ipv4(), "IPv4 announce reply for a non-IPv4 source");
                let t = a.fixed.transaction_id;
                assert!(t.0.get() == tid, "announce reply must echo the transaction id");
                assert!(a.peers.len() == 0, "first announce of a torrent returns no peers");
            }
            Some(Response::AnnounceIpv6(a)) => {
                assert!(valid, "announce reply without a valid connection id");
                assert!(allowed, "forbidden info hash was announced");
                assert!(!src.is_ipv4(), "IPv6 announce reply for an IPv4 source");
                let t = a.fixed.transaction_id;
                assert!(t.0.get() == tid, "announce reply must echo the transaction id");
            }
            Some(Response::Error(e)) => {
                assert!(valid, "error reply without a valid connection id");
                assert!(!allowed, "permitted info hash rejected");
                assert!(e.transaction_id.0.get() == tid, "error reply must echo the transaction id");
                assert!(sw::torrent_count(&shared.shared_state.torrent_maps) == 0, "rejected announce created state");
            }
            Some(_) => assert!(false, "announce answered with a reply of the wrong kind"),
        }
        if !valid {
            assert!(sw::torrent_count(&shared.shared_state.torrent_maps) == 0, "unauthenticated announce created state");
        }
        kani::cover!(matches!(&r, Some(Response::AnnounceIpv4(_))), "v4 announce answered");
        kani::cover!(matches!(&r, Some(Response::AnnounceIpv6(_))), "v6 announce answered");
        kani::cover!(matches!(&r, Some(Response::Error(_))), "forbidden announce answered with error");
        kani::cover!(r.is_none(), "unauthenticated announce ignored");
        std::mem::forget(r);

    std::mem::forget(shared);
}

pub fn c06_scrape<const K: usize>() {
    let Env { mut shared, src, tid, mode, listed, max_age, now } = env();
    let _ = (&mode, &listed, &max_age, &now);
        let hs: [[u8; 20]; K] = kani::any();
        let mut v = Vec::with_capacity(K);
        let mut i = 0;
        while i < K {
            v.push(InfoHash(hs[i]));
            i += 1;
        }
        let cid = ConnectionId::new(kani::any());
        let r = shared.handle_request(
            Request::Scrape(ScrapeRequest { connection_id: cid, transaction_id: TransactionId::new(tid), info_hashes: v }),
            src,
        );
        let valid = expected_valid(cid, src, max_age, now);
        match &r {
            None => assert!(!valid, "scrape with a valid connection id got no reply"),
            Some(Response::Scrape(s)) => {
                assert!(valid, "scrape reply without a valid connection id");
                assert!(s.transaction_id.0.get() == tid, "scrape reply must echo the transaction id");
                assert!(s.torrent_stats.len() == K, "scrape reply must list exactly the requested torrents");
            }
            Some(_) => assert!(false, "scrape answered with a reply of the wrong kind"),
        }
        assert!(sw::torrent_count(&shared.shared_state.torrent_maps) == 0, "scrape must not create state");
        kani::cover!(r.is_some(), "scrape answered");
        kani::cover!(r.is_none(), "scrape ignored");
        std::mem::forget(r);

    std::mem::forget(shared);
}
