//! C12 (UDP part): arbitrary bytes never panic the request parser or the client-side reply parser.
use aquatic_udp_protocol::*;

/// Request parser on arbitrary datagrams is covered by `c13_request_decode_*` (same harness
/// asserts panic freedom and the oracle relation). Here: the reply parser used by the bundled
/// client/load-test library, on arbitrary bytes, both family flags.
fn response_any<const N: usize>() {
    let buf: [u8; N] = kani::any();
    let len: usize = kani::any();
    kani::assume(len <= N);
    let ipv4: bool = kani::any();
    // action 3 (error text, utf8-lossy loop over input) is bounded separately
    kani::assume(!(len >= 4 && buf[0] == 0 && buf[1] == 0 && buf[2] == 0 && buf[3] == 3));
    let r = Response::parse_bytes(&buf[..len], ipv4);
    match &r {
        Ok(Response::AnnounceIpv4(a)) => {
            assert!(ipv4);
            assert!(a.peers.len() * 6 + 20 == len);
        }
        Ok(Response::AnnounceIpv6(a)) => {
            assert!(!ipv4);
            assert!(a.peers.len() * 18 + 20 == len);
        }
        Ok(Response::Scrape(s)) => assert!(s.torrent_stats.len() * 12 + 8 == len),
        Ok(Response::Connect(_)) => assert!(len == 16),
        Ok(Response::Error(_)) => assert!(false),
        Err(_) => {}
    }
    kani::cover!(matches!(&r, Ok(Response::AnnounceIpv6(a)) if a.peers.len() == 2), "v6 two peers");
    kani::cover!(r.is_err() && len >= 20, "long reject");
    std::mem::forget(r);
}

#[kani::proof]
#[kani::unwind(8)]
fn c12_udp_response_any_bytes_64() {
    response_any::<64>();
}

#[cfg(verif_pb_c12)]
include!(env!("VERIF_PLAYBACK_FILE"));
