//! Mounted inside `aquatic_udp::swarm` (guarded `#[path]`), so private items are reachable.
//! Bodies are `pub fn`s called from `#[kani::proof]` wrappers in harness/kani-udp.
//!
//! Step-harness scheme (C01/C02/C10/C20): the pre-state is a *symbolic* value of the real
//! storage type (concrete size, symbolic contents, representation invariant assumed), one real
//! operation runs with symbolic arguments, and the harness asserts that reply and post-state
//! equal those of a set-of-entries reference model, plus the invariant again.
#![allow(dead_code)]
use super::*;
use std::net::{Ipv4Addr, Ipv6Addr, SocketAddr, SocketAddrV4, SocketAddrV6};
use std::num::NonZeroU16;
use std::path::PathBuf;

use aquatic_common::access_list::AccessListConfig;
use aquatic_common::cli::LogLevel;
use aquatic_common::privileges::PrivilegeConfig;
use rand::SeedableRng;

use crate::config::*;

pub const MAXN: usize = 6;

// ------------------------------------------------------------------ environment

pub fn mk_config(max_response_peers: usize, peer_clients: bool, mode: AccessListMode) -> Config {
    Config {
        socket_workers: 1,
        log_level: LogLevel::Error,
        network: NetworkConfig {
            use_ipv4: true,
            use_ipv6: true,
            address_ipv4: SocketAddrV4::new(Ipv4Addr::UNSPECIFIED, 3000),
            address_ipv6: SocketAddrV6::new(Ipv6Addr::UNSPECIFIED, 3000, 0, 0),
            socket_recv_buffer_size: 0,
            poll_timeout_ms: 50,
            resend_buffer_max_len: 0,
            set_only_ipv6: true,
        },
        protocol: ProtocolConfig {
            max_scrape_torrents: 70,
            max_response_peers,
            peer_announce_interval: 900,
        },
        statistics: StatisticsConfig {
            interval: 5,
            torrent_peer_histograms: false,
            peer_clients,
            print_to_stdout: false,
            write_html_to_file: false,
            html_file_path: PathBuf::new(),
        },
        cleaning: CleaningConfig {
            torrent_cleaning_interval: 120,
            max_connection_age: 120,
            max_peer_age: 1200,
        },
        privileges: PrivilegeConfig {
            drop_privileges: false,
            chroot_path: PathBuf::new(),
            group: String::new(),
            user: String::new(),
        },
        access_list: AccessListConfig { mode, path: PathBuf::new() },
        scrape_exports: ScrapeExportConfig { enable_scrape_exports: false, frequency: 10, path: PathBuf::new() },
    }
}

/// log of statistics messages (crossbeam `Sender::try_send` is stubbed to `log_try_send`)
pub static mut STAT_LOG: [(u8, [u8; 20]); 8] = [(0, [0; 20]); 8];
pub static mut STAT_LOG_LEN: usize = 0;

pub fn log_try_send<T>(_s: &Sender<T>, m: T) -> Result<(), crossbeam_channel::TrySendError<T>> {
    // the only channel in aquatic_udp carries StatisticsMessage
    assert!(std::mem::size_of::<T>() == std::mem::size_of::<StatisticsMessage>());
    unsafe {
        let mm: &StatisticsMessage = &*(&m as *const T as *const StatisticsMessage);
        let e = match mm {
            StatisticsMessage::PeerAdded(p) => (1u8, p.0),
            StatisticsMessage::PeerRemoved(p) => (2u8, p.0),
            _ => (3u8, [0; 20]),
        };
        assert!(STAT_LOG_LEN < 8, "model capacity: statistics log");
        STAT_LOG[STAT_LOG_LEN] = e;
        STAT_LOG_LEN += 1;
    }
    std::mem::forget(m);
    Ok(())
}

/// Arbitrary generator state (all 2^256 - 1 non-zero xoshiro256++ states), so that every
/// outcome of every random draw is explored. `SmallRng` is a newtype over `[u64; 4]`.
pub fn any_rng() -> SmallRng {
    let s: [u64; 4] = kani::any();
    kani::assume(s[0] != 0 || s[1] != 0 || s[2] != 0 || s[3] != 0);
    unsafe { std::mem::transmute::<[u64; 4], SmallRng>(s) }
}

// ------------------------------------------------------------------ symbolic entries

pub trait KIp: Ip {
    fn any_ip() -> Self;
}
impl KIp for Ipv4AddrBytes {
    fn any_ip() -> Self {
        Ipv4AddrBytes(kani::any())
    }
}
impl KIp for Ipv6AddrBytes {
    fn any_ip() -> Self {
        Ipv6AddrBytes(kani::any())
    }
}

#[derive(Clone, Copy)]
pub struct Ent<I: Ip> {
    pub key: ResponsePeer<I>,
    pub peer_id: [u8; 20],
    pub seeder: bool,
    pub deadline: u32,
}

pub fn any_key<I: KIp>() -> ResponsePeer<I> {
    let port: u16 = kani::any();
    ResponsePeer { ip_address: I::any_ip(), port: Port(port.into()) }
}

pub fn any_ent<I: KIp>() -> Ent<I> {
    Ent { key: any_key(), peer_id: kani::any(), seeder: kani::any(), deadline: kani::any() }
}

fn to_peer<I: Ip>(e: &Ent<I>) -> Peer {
    Peer {
        peer_id: PeerId(e.peer_id),
        is_seeder: e.seeder,
        valid_until: ValidUntil::new_raw(SecondsSinceServerStart::new_raw(e.deadline)),
    }
}

/// ents[j] for a solver-chosen j, read with concrete indices only (Kani 0.68 mis-models some
/// aggregate accesses through a symbolic index; scalar selection is safe and cheap).
pub fn pick<I: Ip, const N: usize>(ents: &[Ent<I>; N], j: usize) -> Ent<I> {
    let mut r = ents[0];
    let mut i = 0;
    while i < N {
        if i == j {
            r = ents[i];
        }
        i += 1;
    }
    r
}

/// `n` symbolic entries with pairwise distinct keys (the representation invariant).
pub fn any_ents<I: KIp, const N: usize>() -> [Ent<I>; N] {
    let mut a = [any_ent::<I>(); N];
    let mut i = 0;
    while i < N {
        a[i] = any_ent::<I>();
        let mut j = 0;
        while j < i {
            kani::assume(a[j].key != a[i].key);
            j += 1;
        }
        i += 1;
    }
    a
}

/// Real storage value holding exactly `ents`: `Small` when `large == false` (N <= 2), else
/// `Large` with the cached `num_seeders` consistent (invariant).
pub fn mk_peer_map<I: KIp, const N: usize>(ents: &[Ent<I>; N], large: bool) -> PeerMap<I> {
    if !large {
        let mut v = ArrayVec::new();
        let mut i = 0;
        while i < N {
            v.push((ents[i].key, to_peer(&ents[i])));
            i += 1;
        }
        PeerMap::Small(SmallPeerMap(v))
    } else {
        let mut peers: IndexMap<ResponsePeer<I>, Peer> = Default::default();
        let mut ns = 0;
        let mut i = 0;
        while i < N {
            peers.push_unchecked(ents[i].key, to_peer(&ents[i]));
            if ents[i].seeder {
                ns += 1;
            }
            i += 1;
        }
        PeerMap::Large(LargePeerMap { peers, num_seeders: ns })
    }
}

// ------------------------------------------------------------------ abstraction

/// Plain-array view of a stored peer map, read once (so that the symbolic enum discriminant is
/// branched on once): entries in storage order.
pub struct Snap<I: Ip, const B: usize> {
    pub e: [Option<(ResponsePeer<I>, Peer)>; B],
    pub len: usize,
    pub large: bool,
    pub cached_seeders: usize,
}

pub fn snapshot<I: Ip, const B: usize>(m: &PeerMap<I>) -> Snap<I, B> {
    let mut e = [None; B];
    match m {
        PeerMap::Small(s) => {
            let n = s.0.len();
            assert!(n <= B, "harness bound: more entries than expected");
            let mut i = 0;
            while i < B && i < SMALL_PEER_MAP_CAPACITY {
                if i < n {
                    e[i] = Some(s.0[i]);
                }
                i += 1;
            }
            Snap { e, len: n, large: false, cached_seeders: 0 }
        }
        PeerMap::Large(l) => {
            let n = l.peers.len();
            assert!(n <= B, "harness bound: more entries than expected");
            let mut i = 0;
            while i < B {
                if let Some((k, p)) = l.peers.get_index(i) {
                    e[i] = Some((*k, *p));
                }
                i += 1;
            }
            Snap { e, len: n, large: true, cached_seeders: l.num_seeders }
        }
    }
}

impl<I: Ip, const B: usize> Snap<I, B> {
    /// (number of entries with this key, last such entry)
    pub fn find(&self, k: &ResponsePeer<I>) -> (usize, Option<Peer>) {
        let mut c = 0;
        let mut f = None;
        let mut i = 0;
        while i < B {
            if let Some((kk, p)) = &self.e[i] {
                if i < self.len && *kk == *k {
                    c += 1;
                    f = Some(*p);
                }
            }
            i += 1;
        }
        (c, f)
    }
    pub fn seeders(&self) -> usize {
        let mut c = 0;
        let mut i = 0;
        while i < B {
            if let Some((_, p)) = &self.e[i] {
                if i < self.len && p.is_seeder {
                    c += 1;
                }
            }
            i += 1;
        }
        c
    }
    /// representation invariant: Large caches the true seeder count
    pub fn inv(&self) -> bool {
        !self.large || self.cached_seeders == self.seeders()
    }
}

/// `v` has deadline `d`  <=>  for every t: v.valid(t) == (d > t); checked at a solver-chosen t.
pub fn deadline_is(v: &ValidUntil, d: u32) -> bool {
    let t: u32 = kani::any();
    v.valid(SecondsSinceServerStart::new_raw(t)) == (d > t)
}

// ------------------------------------------------------------------ request

pub fn any_event() -> AnnounceEvent {
    let e: u8 = kani::any();
    kani::assume(e < 4);
    match e {
        0 => AnnounceEvent::None,
        1 => AnnounceEvent::Completed,
        2 => AnnounceEvent::Started,
        _ => AnnounceEvent::Stopped,
    }
}

pub fn any_announce(info_hash: [u8; 20]) -> AnnounceRequest {
    let port: u16 = kani::any();
    kani::assume(port != 0);
    AnnounceRequest {
        connection_id: ConnectionId::new(kani::any()),
        action_placeholder: AnnounceActionPlaceholder::Announce,
        transaction_id: TransactionId::new(kani::any()),
        info_hash: InfoHash(info_hash),
        peer_id: PeerId(kani::any()),
        bytes_downloaded: NumberOfBytes::new(kani::any()),
        bytes_left: NumberOfBytes::new(kani::any()),
        bytes_uploaded: NumberOfBytes::new(kani::any()),
        event: any_event(),
        ip_address: Ipv4AddrBytes(kani::any()),
        key: PeerKey::new(kani::any()),
        peers_wanted: NumberOfPeers::new(kani::any()),
        port: Port::new(NonZeroU16::new(port).unwrap()),
    }
}

// ------------------------------------------------------------------ C01 / C02 / C20: announce step

/// One `PeerMap::announce` from an arbitrary invariant-satisfying state of exactly N peers.
pub fn peermap_announce_step<I: KIp, const N: usize, const B: usize, const G: u8>(large: bool, peer_clients: bool) {
    assert!(B == N + 1);
    let ents = any_ents::<I, N>();
    let mut m = mk_peer_map(&ents, large);
    let max_response_peers: usize = kani::any();
    kani::assume(max_response_peers <= 8);
    let config = mk_config(max_response_peers, peer_clients, AccessListMode::Off);
    let (tx, _rx) = crossbeam_channel::unbounded();
    let mut rng = any_rng();
    let req = any_announce(kani::any());
    let ip = I::any_ip();
    let deadline: u32 = kani::any();
    let vu = ValidUntil::new_raw(SecondsSinceServerStart::new_raw(deadline));
    unsafe { STAT_LOG_LEN = 0 };

    let resp = m.announce(&config, &tx, &mut rng, &req, ip, vu);
    // native replay: `try_send` is not stubbed there, so read the real channel instead
    #[cfg(verif_playback)]
    for msg in _rx.try_iter() {
        let _ = log_try_send(&tx, msg);
    }

    // ---- reference model over the set of entries
    let rport = req.port;
    let key = ResponsePeer { ip_address: ip, port: rport };
    let ev = req.event;
    let stopped = ev == AnnounceEvent::Stopped;
    let seeder = req.bytes_left.0.get() == 0;
    let mut others = 0usize; // entries other than the announcer
    let mut other_seeders = 0usize;
    let mut was_present = false;
    let mut old_id = [0u8; 20];
    let mut i = 0;
    while i < N {
        if ents[i].key == key {
            was_present = true;
            old_id = ents[i].peer_id;
        } else {
            others += 1;
            if ents[i].seeder {
                other_seeders += 1;
            }
        }
        i += 1;
    }

    // C01: counts exclude the announcer
    if G & 1 != 0 {
    assert!(resp.fixed.seeders.0.get() as usize == other_seeders, "announce reply seeders != reference (others that are seeders)");
    assert!(resp.fixed.leechers.0.get() as usize == others - other_seeders, "announce reply leechers != reference");
    let (rt, qt) = (resp.fixed.transaction_id, req.transaction_id);
    assert!(rt == qt, "transaction id echoed");
    }

    let want_len = if stopped { others } else { others + 1 };
    // C01: post-state == reference post-state
    if G & 2 != 0 {
    let post = snapshot::<I, B>(&m);
    assert!(post.len == want_len, "stored peer count != reference");
    assert!(post.inv(), "cached seeder count inconsistent after announce");
    assert!(post.large || post.len <= SMALL_PEER_MAP_CAPACITY, "small map over capacity");
    let (cnt, found) = post.find(&key);
    match found {
        Some(p) => {
            assert!(!stopped, "stopped peer still stored");
            assert!(cnt == 1, "announcer stored more than once");
            assert!(p.is_seeder == seeder, "left==0 <=> seeder violated for announcer");
            assert!(p.peer_id.0 == req.peer_id.0, "latest announce must win (peer id)");
            assert!(deadline_is(&p.valid_until, deadline), "announce must refresh the deadline");
        }
        None => assert!(stopped, "announcing peer not stored"),
    }
    // every other entry untouched (solver-chosen index = for all)
    if N > 0 {
        let j: usize = kani::any();
        kani::assume(j < N);
        let ej = pick(&ents, j);
        if ej.key != key {
            let (cnt, found) = post.find(&ej.key);
            match found {
                Some(p) => {
                    assert!(cnt == 1 && p.is_seeder == ej.seeder && p.peer_id.0 == ej.peer_id && deadline_is(&p.valid_until, ej.deadline), "another peer's entry changed by announce");
                }
                None => assert!(false, "another peer's entry lost by announce"),
            }
        }
    }
    }
    // scrape counts include every stored peer
    if G & 1 != 0 {
    let sc = m.scrape_statistics();
    let total_seeders = other_seeders + if !stopped && seeder { 1 } else { 0 };
    assert!(sc.seeders.0.get() as usize == total_seeders, "scrape seeders != stored seeders");
    assert!(sc.leechers.0.get() as usize == want_len - total_seeders, "scrape leechers != stored leechers");
    assert!(m.is_empty() == (want_len == 0), "is_empty disagrees with contents");
    }

    // C02: peer list sound, bounded, never the requester
    if G & 4 != 0 {
    let limit = if req.peers_wanted.0.get() <= 0 {
        max_response_peers
    } else if (req.peers_wanted.0.get() as usize) < max_response_peers {
        req.peers_wanted.0.get() as usize
    } else {
        max_response_peers
    };
    let k = resp.peers.len();
    assert!(k <= limit, "more peers returned than min(numwant, max_response_peers)");
    if others <= limit {
        assert!(k == others, "all other members must be returned when they fit the limit");
    } else {
        assert!(k + 1 >= limit, "fewer than limit-1 peers returned from a larger swarm");
    }
    // copy the reply out once with concrete indices (symbolic indexing into the heap Vec is
    // what makes CBMC's formula explode), then quantify over the plain array
    assert!(k <= B, "harness bound: reply longer than stored entries");
    let mut out = [key; B];
    let mut i = 0;
    while i < B {
        if i < k {
            out[i] = resp.peers[i];
        }
        i += 1;
    }
    if k > 0 {
        let a: usize = kani::any();
        kani::assume(a < k);
        let pa = out[a];
        assert!(pa != key, "requester returned to itself");
        let mut member = false;
        let mut i = 0;
        while i < N {
            if ents[i].key == pa {
                member = true;
            }
            i += 1;
        }
        assert!(member, "returned peer is not a stored member of the torrent");
        let b: usize = kani::any();
        kani::assume(b < k && b != a);
        assert!(out[b] != pa, "duplicate peer in reply");
    }
    }
    // C20: per-client tally messages == change of stored peers per peer id
    if G & 8 == 0 {
    } else if peer_clients {
        let n = unsafe { STAT_LOG_LEN };
        let pid: [u8; 20] = kani::any();
        let mut delta_msgs: i32 = 0;
        assert!(n <= 2, "at most two statistics messages per announce");
        let mut i = 0;
        while i < 2 {
            if i < n {
                let (kind, p) = unsafe { STAT_LOG[i] };
                if p == pid {
                    if kind == 1 {
                        delta_msgs += 1;
                    } else if kind == 2 {
                        delta_msgs -= 1;
                    }
                }
            }
            i += 1;
        }
        let mut delta_state: i32 = 0;
        if was_present && old_id == pid {
            delta_state -= 1;
        }
        if !stopped && req.peer_id.0 == pid {
            delta_state += 1;
        }
        assert!(delta_msgs == delta_state, "PeerAdded/PeerRemoved messages do not match the change in stored peers carrying this peer id");
    } else {
        assert!(unsafe { STAT_LOG_LEN } == 0, "statistics messages sent although peer_clients is off");
    }

    kani::cover!(N == 0 || (was_present && !stopped), "re-announce of a stored peer");
    kani::cover!(N == 0 || (was_present && stopped), "stop of a stored peer");
    kani::cover!(!was_present && !stopped, "new peer");
    std::mem::forget(resp);
    std::mem::forget(m);
    std::mem::forget(config);
    std::mem::forget(tx);
    std::mem::forget(_rx);
}


pub fn dbg_announce_n2() {
    let ents = any_ents::<Ipv4AddrBytes, 2>();
    let mut m = mk_peer_map(&ents, false);
    let config = mk_config(4, false, AccessListMode::Off);
    let (tx, _rx) = crossbeam_channel::unbounded();
    let mut rng = any_rng();
    let mut req = any_announce(kani::any());
    req.event = AnnounceEvent::Started;
    let ip = Ipv4AddrBytes::any_ip();
    let rport = req.port;
    let key = ResponsePeer { ip_address: ip, port: rport };
    kani::assume(key != ents[0].key && key != ents[1].key);
    let vu = ValidUntil::new_raw(SecondsSinceServerStart::new_raw(kani::any()));
    let resp = m.announce(&config, &tx, &mut rng, &req, ip, vu);
    match &m {
        PeerMap::Large(l) => {
            assert!(l.peers.len() == 3, "d len3");
            let (k0, p0) = l.peers.get_index(0).unwrap();
            assert!(*k0 == ents[0].key, "d key0");
            assert!(p0.peer_id.0 == ents[0].peer_id, "d pid0");
            assert!(p0.is_seeder == ents[0].seeder, "d seeder0");
            let (k1, p1) = l.peers.get_index(1).unwrap();
            assert!(*k1 == ents[1].key, "d key1");
            assert!(p1.peer_id.0 == ents[1].peer_id, "d pid1");
            let (k2, _) = l.peers.get_index(2).unwrap();
            assert!(*k2 == key, "d key2");
        }
        PeerMap::Small(_) => assert!(false, "d still small"),
    }
    let post = snapshot::<Ipv4AddrBytes, 3>(&m);
    let (c, f) = post.find(&ents[0].key);
    assert!(c == 1, "d find0 c");
    assert!(f.is_some(), "d find0 f");
    assert!(f.unwrap().peer_id.0 == ents[0].peer_id, "d find0 pid");
    assert!(deadline_is(&f.unwrap().valid_until, ents[0].deadline), "d find0 deadline");
    std::mem::forget(resp);
    std::mem::forget(m);
    std::mem::forget(config);
    std::mem::forget(tx);
    std::mem::forget(_rx);
}

pub fn dbg_announce_n2_re(stop: bool, which: usize) {
    let ents = any_ents::<Ipv4AddrBytes, 2>();
    let mut m = mk_peer_map(&ents, false);
    let config = mk_config(4, false, AccessListMode::Off);
    let (tx, _rx) = crossbeam_channel::unbounded();
    let mut rng = any_rng();
    let mut req = any_announce(kani::any());
    req.event = if stop { AnnounceEvent::Stopped } else { AnnounceEvent::Started };
    let ip = ents[which].key.ip_address;
    req.port = ents[which].key.port;
    let vu = ValidUntil::new_raw(SecondsSinceServerStart::new_raw(kani::any()));
    let resp = m.announce(&config, &tx, &mut rng, &req, ip, vu);
    let other = 1 - which;
    let post = snapshot::<Ipv4AddrBytes, 3>(&m);
    assert!(post.len == if stop { 1 } else { 2 }, "r len");
    let (c, f) = post.find(&ents[other].key);
    assert!(c == 1, "r find c");
    assert!(f.is_some(), "r find f");
    assert!(f.unwrap().peer_id.0 == ents[other].peer_id, "r find pid");
    assert!(f.unwrap().is_seeder == ents[other].seeder, "r find seeder");
    assert!(deadline_is(&f.unwrap().valid_until, ents[other].deadline), "r find deadline");
    std::mem::forget(resp);
    std::mem::forget(m);
    std::mem::forget(config);
    std::mem::forget(tx);
    std::mem::forget(_rx);
}

// ------------------------------------------------------------------ C10 / C11 / C20 / C01: cleaning step

pub fn any_mode() -> AccessListMode {
    let m: u8 = kani::any();
    kani::assume(m < 3);
    match m {
        0 => AccessListMode::Allow,
        1 => AccessListMode::Deny,
        _ => AccessListMode::Off,
    }
}

/// One real `TorrentMapShards::clean_and_get_statistics` over a single torrent holding exactly
/// N symbolic peers (inline or heap representation), symbolic clock, symbolic access list of
/// 0..1 entries and symbolic mode.
///   C10: an entry survives <=> its deadline > now, whatever the representation / neighbours;
///        survivors are untouched. C20: returned (torrents, peers) == what is stored afterwards;
///        with peer_clients one PeerRemoved per expired peer, carrying its peer id.
///   C11: a forbidden torrent is removed whatever its peers. C01: a torrent left without peers
///        is removed (indistinguishable from never seen); heap map shrinks back when <= 2 remain.
pub fn clean_step<I: KIp, const N: usize, const B: usize>(large: bool, peer_clients: bool) {
    let ents = any_ents::<I, N>();
    let m = mk_peer_map(&ents, large);
    let info_hash = InfoHash(kani::any());
    let maps: TorrentMapShards<I> = TorrentMapShards::new(1);
    maps.0[0].write().insert(info_hash, Arc::new(RwLock::new(m)));
    let mode = any_mode();
    let config = mk_config(4, peer_clients, mode);
    // access list: empty or one symbolic hash
    let listed: [u8; 20] = kani::any();
    let list_nonempty: bool = kani::any();
    let mut list = aquatic_common::access_list::AccessList::default();
    if list_nonempty {
        list.insert_raw_for_verif(listed);
    }
    let shared = Arc::new(AccessListArcSwap::new(Arc::new(list)));
    let mut cache = create_access_list_cache(&shared);
    let now: u32 = kani::any();
    let mut msgs: Vec<StatisticsMessage> = Vec::with_capacity(N + 1);
    let mut writer: Option<BufWriter<File>> = None;

    let (torrents, peers, hist) = maps.clean_and_get_statistics(
        &config,
        &mut msgs,
        &mut cache,
        mode,
        SecondsSinceServerStart::new_raw(now),
        &mut writer,
    );
    assert!(hist.is_none(), "histogram only when configured");

    // ---- reference
    let member = list_nonempty && listed == info_hash.0;
    let allowed = match mode {
        AccessListMode::Allow => member,
        AccessListMode::Deny => !member,
        AccessListMode::Off => true,
    };
    let mut kept = 0usize;
    let mut kept_seeders = 0usize;
    let mut i = 0;
    while i < N {
        if ents[i].deadline > now {
            kept += 1;
            if ents[i].seeder {
                kept_seeders += 1;
            }
        }
        i += 1;
    }
    // C20: totals are the ground truth of what is stored afterwards
    assert!(peers == kept, "reported peer total != peers stored after cleaning");
    let stored = allowed && kept > 0;
    assert!(torrents == if stored { 1 } else { 0 }, "reported torrent total != torrents stored after cleaning");

    let shard = maps.0[0].read();
    match shard.get(&info_hash) {
        None => {
            assert!(!stored, "permitted torrent with live peers removed by cleaning");
        }
        Some(pm) => {
            assert!(allowed, "torrent forbidden by the access list survived cleaning");
            assert!(kept > 0, "torrent without peers survived cleaning");
            let guard = pm.read();
            let post = snapshot::<I, B>(&guard);
            assert!(post.len == kept, "stored peers != peers with deadline in the future");
            assert!(post.inv(), "cached seeder count inconsistent after cleaning");
            assert!(post.seeders() == kept_seeders, "seeder count after cleaning");
            assert!(post.large == (large && kept > SMALL_PEER_MAP_CAPACITY), "representation after cleaning (heap map must shrink when <= 2 peers remain)");
            if N > 0 {
                let j: usize = kani::any();
                kani::assume(j < N);
                let ej = pick(&ents, j);
                let (cnt, found) = post.find(&ej.key);
                if ej.deadline > now {
                    // C10: never removed early, and untouched
                    match found {
                        Some(p) => assert!(cnt == 1 && p.is_seeder == ej.seeder && p.peer_id.0 == ej.peer_id && deadline_is(&p.valid_until, ej.deadline), "live peer changed by cleaning"),
                        None => assert!(false, "peer removed before its deadline"),
                    }
                } else {
                    assert!(found.is_none(), "peer still stored at or after its deadline");
                }
            }
            let sc = guard.scrape_statistics();
            assert!(sc.seeders.0.get() as usize == kept_seeders && sc.leechers.0.get() as usize == kept - kept_seeders, "scrape counts after cleaning");
        }
    }
    // C20: one PeerRemoved per expired peer (only when client statistics are on)
    let nm = msgs.len();
    if peer_clients {
        assert!(nm == N - kept, "number of PeerRemoved messages != expired peers");
        let pid: [u8; 20] = kani::any();
        let mut removed_msgs = 0usize;
        let mut i = 0;
        while i < B {
            if i < nm {
                if let StatisticsMessage::PeerRemoved(p) = &msgs[i] {
                    if p.0 == pid {
                        removed_msgs += 1;
                    }
                } else {
                    assert!(false, "unexpected statistics message from cleaning");
                }
            }
            i += 1;
        }
        let mut expired_with_pid = 0usize;
        let mut i = 0;
        while i < N {
            if ents[i].deadline <= now && ents[i].peer_id == pid {
                expired_with_pid += 1;
            }
            i += 1;
        }
        assert!(removed_msgs == expired_with_pid, "PeerRemoved messages per peer id != expired peers carrying it");
    } else {
        assert!(nm == 0, "statistics messages although peer_clients is off");
    }
    kani::cover!(N == 0 || kept == N, "nothing expired");
    kani::cover!(N == 0 || kept == 0, "everything expired");
    kani::cover!(N < 2 || (kept > 0 && kept < N), "some expired");
    kani::cover!(!allowed, "forbidden torrent");
    drop(shard);
    std::mem::forget(msgs);
    std::mem::forget(maps);
    std::mem::forget(config);
    std::mem::forget(cache);
    std::mem::forget(shared);
}

// ------------------------------------------------------------------ constructors for other harness modules

/// TorrentMaps with one shard per family (the shard index is `hash[0] % shards`; the number of
/// shards does not enter any checked property).
pub fn mk_torrent_maps() -> TorrentMaps {
    TorrentMaps { ipv4: TorrentMapShards::new(1), ipv6: TorrentMapShards::new(1) }
}

/// number of torrents stored (both families)
pub fn torrent_count(t: &TorrentMaps) -> usize {
    t.ipv4.0[0].read().len() + t.ipv6.0[0].read().len()
}

// ------------------------------------------------------------------ C20 / C11: whole cleaning pass (both families)

/// `TorrentMaps::clean_and_update_statistics` on one IPv4 torrent (N4 peers) and one IPv6 torrent
/// (N6 peers), symbolic clock / access list / mode / statistics switches.
///   C20: when statistics are active the stored per-family totals equal what is stored
///        afterwards in that family. C11: forbidden torrents are gone in both families, whatever
///        the list contents (including the empty list in allow mode).
pub fn clean_maps_step<const N4: usize, const B4: usize, const N6: usize, const B6: usize>(large4: bool, large6: bool) {
    let e4 = any_ents::<Ipv4AddrBytes, N4>();
    let e6 = any_ents::<Ipv6AddrBytes, N6>();
    let h4 = InfoHash(kani::any());
    let h6 = InfoHash(kani::any());
    let maps = mk_torrent_maps();
    maps.ipv4.0[0].write().insert(h4, Arc::new(RwLock::new(mk_peer_map(&e4, large4))));
    maps.ipv6.0[0].write().insert(h6, Arc::new(RwLock::new(mk_peer_map(&e6, large6))));
    let mode = any_mode();
    let mut config = mk_config(4, false, mode);
    config.statistics.print_to_stdout = kani::any();
    config.statistics.interval = if kani::any() { 5 } else { 0 };
    let active = config.statistics.active();
    let listed: [u8; 20] = kani::any();
    let list_nonempty: bool = kani::any();
    let mut list = aquatic_common::access_list::AccessList::default();
    if list_nonempty {
        list.insert_raw_for_verif(listed);
    }
    let shared = Arc::new(AccessListArcSwap::new(Arc::new(list)));
    let now: u32 = kani::any();
    let statistics: CachePaddedArc<IpVersionStatistics<SwarmWorkerStatistics>> = Default::default();
    // sentinel values: must be overwritten exactly when statistics are active
    statistics.ipv4.torrents.store(77, Ordering::Relaxed);
    statistics.ipv4.peers.store(77, Ordering::Relaxed);
    statistics.ipv6.torrents.store(77, Ordering::Relaxed);
    statistics.ipv6.peers.store(77, Ordering::Relaxed);
    let (tx, _rx) = crossbeam_channel::unbounded();
    unsafe { STAT_LOG_LEN = 0 };

    maps.clean_and_update_statistics(&config, &statistics, &tx, &shared, SecondsSinceServerStart::new_raw(now), false);

    let allowed = |h: &InfoHash| {
        let member = list_nonempty && listed == h.0;
        match mode {
            AccessListMode::Allow => member,
            AccessListMode::Deny => !member,
            AccessListMode::Off => true,
        }
    };
    let mut kept4 = 0usize;
    let mut i = 0;
    while i < N4 {
        if e4[i].deadline > now {
            kept4 += 1;
        }
        i += 1;
    }
    let mut kept6 = 0usize;
    let mut i = 0;
    while i < N6 {
        if e6[i].deadline > now {
            kept6 += 1;
        }
        i += 1;
    }
    let stored4 = allowed(&h4) && kept4 > 0;
    let stored6 = allowed(&h6) && kept6 > 0;
    {
        let s4 = maps.ipv4.0[0].read();
        assert!(s4.get(&h4).is_some() == stored4, "IPv4 torrent stored after cleaning <=> permitted and has live peers");
        if let Some(pm) = s4.get(&h4) {
            let g = pm.read();
            assert!(map_len(&g) == kept4, "IPv4 peers stored after cleaning");
        }
        let s6 = maps.ipv6.0[0].read();
        assert!(s6.get(&h6).is_some() == stored6, "IPv6 torrent stored after cleaning <=> permitted and has live peers");
        if let Some(pm) = s6.get(&h6) {
            let g = pm.read();
            assert!(map_len(&g) == kept6, "IPv6 peers stored after cleaning");
        }
    }
    let r4t = statistics.ipv4.torrents.load(Ordering::Relaxed);
    let r4p = statistics.ipv4.peers.load(Ordering::Relaxed);
    let r6t = statistics.ipv6.torrents.load(Ordering::Relaxed);
    let r6p = statistics.ipv6.peers.load(Ordering::Relaxed);
    if active {
        assert!(r4t == if stored4 { 1 } else { 0 }, "reported IPv4 torrent total != stored");
        assert!(r4p == kept4, "reported IPv4 peer total != stored");
        assert!(r6t == if stored6 { 1 } else { 0 }, "reported IPv6 torrent total != stored");
        assert!(r6p == kept6, "reported IPv6 peer total != stored");
    } else {
        assert!(r4t == 77 && r4p == 77 && r6t == 77 && r6p == 77, "totals published although statistics are inactive");
    }
    assert!(unsafe { STAT_LOG_LEN } == 0, "no client messages expected (peer_clients off)");
    assert!(held_total_is_zero(), "a lock is still held after the cleaning pass");
    kani::cover!(active && stored4 && stored6, "both stored, statistics active");
    kani::cover!(!allowed(&h4) && allowed(&h6), "one family forbidden");
    kani::cover!(mode == AccessListMode::Allow && !list_nonempty, "allow mode with empty list");
    std::mem::forget(maps);
    std::mem::forget(config);
    std::mem::forget(shared);
    std::mem::forget(statistics);
    std::mem::forget(tx);
    std::mem::forget(_rx);
}

pub fn held_total_is_zero() -> bool {
    crate::verif_shims::held_total() == 0
}

pub fn map_len<I: Ip>(m: &PeerMap<I>) -> usize {
    match m {
        PeerMap::Small(s) => s.0.len(),
        PeerMap::Large(l) => l.peers.len(),
    }
}

// ------------------------------------------------------------------ C04: sequentialised interleavings

/// Shared context for the operation injected at a probe point ("the other thread").
static mut C04_MAPS: Option<*const TorrentMapShards<Ipv4AddrBytes>> = None;
static mut C04_POINT: u8 = 0;
static mut C04_FIRED: bool = false;
static mut C04_KIND: u8 = 0; // 0 = cleaning pass, 1 = announce of another peer, 2 = scrape
static mut C04_NOW: u32 = 0;
static mut C04_HASH: [u8; 20] = [0; 20];
static mut C04_B_KEY: (Ipv4AddrBytes, u16) = (Ipv4AddrBytes([0; 4]), 1);
static mut C04_B_SCRAPE: (i32, i32) = (-1, -1);

fn c04_injected(point: u8) {
    unsafe {
        // every probe point is a lock-free gap: the suspended operation holds no lock there
        assert!(crate::verif_shims::held_total() == 0, "a lock is held across a gap where the other thread may run");
        if point != C04_POINT || C04_FIRED {
            return;
        }
        C04_FIRED = true;
        let maps = &*C04_MAPS.unwrap();
        let config = mk_config(2, false, AccessListMode::Off);
        match C04_KIND {
            0 => {
                let shared = Arc::new(AccessListArcSwap::new(Arc::new(aquatic_common::access_list::AccessList::default())));
                let mut cache = create_access_list_cache(&shared);
                let mut msgs = Vec::new();
                let mut w: Option<BufWriter<File>> = None;
                let _ = maps.clean_and_get_statistics(&config, &mut msgs, &mut cache, AccessListMode::Off, SecondsSinceServerStart::new_raw(C04_NOW), &mut w);
                std::mem::forget(cache);
                std::mem::forget(shared);
                std::mem::forget(msgs);
            }
            1 => {
                let (tx, rx) = crossbeam_channel::unbounded();
                let mut rng = any_rng();
                let mut req = lean_announce(C04_HASH, [2; 20]);
                req.event = AnnounceEvent::Started;
                req.port = Port::new(NonZeroU16::new(C04_B_KEY.1).unwrap());
                let r = maps.announce(&config, &tx, &mut rng, &req, C04_B_KEY.0, ValidUntil::new_raw(SecondsSinceServerStart::new_raw(u32::MAX)));
                std::mem::forget(r);
                std::mem::forget(tx);
                std::mem::forget(rx);
            }
            _ => {
                let mut v = Vec::with_capacity(1);
                v.push(InfoHash(C04_HASH));
                let r = maps.scrape(ScrapeRequest { connection_id: ConnectionId::new(0), transaction_id: TransactionId::new(0), info_hashes: v });
                if r.torrent_stats.len() == 1 {
                    let st = r.torrent_stats[0];
                    C04_B_SCRAPE = (st.seeders.0.get(), st.leechers.0.get());
                }
                std::mem::forget(r);
            }
        }
        std::mem::forget(config);
        assert!(crate::verif_shims::held_total() == 0, "injected operation left a lock held");
    }
}

/// Announce request with only the fields that matter for interleavings symbolic (event, left==0);
/// identifiers and counters are fixed: no checked relation depends on their values.
pub fn lean_announce(info_hash: [u8; 20], peer_id: [u8; 20]) -> AnnounceRequest {
    AnnounceRequest {
        connection_id: ConnectionId::new(0),
        action_placeholder: AnnounceActionPlaceholder::Announce,
        transaction_id: TransactionId::new(7),
        info_hash: InfoHash(info_hash),
        peer_id: PeerId(peer_id),
        bytes_downloaded: NumberOfBytes::new(0),
        bytes_left: NumberOfBytes::new(if kani::any() { 0 } else { 1 }),
        bytes_uploaded: NumberOfBytes::new(0),
        event: any_event(),
        ip_address: Ipv4AddrBytes([0; 4]),
        key: PeerKey::new(0),
        peers_wanted: NumberOfPeers::new(-1),
        port: Port::new(NonZeroU16::new(1000).unwrap()),
    }
}

fn lean_ent(ip: [u8; 4], port: u16, id: u8) -> Ent<Ipv4AddrBytes> {
    Ent { key: ResponsePeer { ip_address: Ipv4AddrBytes(ip), port: Port(port.into()) }, peer_id: [id; 20], seeder: kani::any(), deadline: kani::any() }
}

/// A = announce of peer X for torrent T; B (cleaning pass | announce of peer Y | scrape) runs to
/// completion inside A's lock-free gap (after A took its reference to T's peer map, before it
/// locks it). T is absent, present-and-empty, or holds one (possibly expired) peer Z.
/// Afterwards a quiescent scrape must see every announce that was answered:
///   - X is stored unless it announced 'stopped' (never lost to the concurrent cleaning pass);
///   - Y (injected announce) is stored; Z is stored unless the cleaning pass expired it;
///   - A's reply counts are those of one of the two sequential orders.
pub fn c04_announce_gap(kind: u8, pre: u8) {
    let maps: TorrentMapShards<Ipv4AddrBytes> = TorrentMapShards::new(1);
    let h: [u8; 20] = [9; 20];
    let z = lean_ent([10, 0, 0, 3], 3000, 3);
    let now: u32 = kani::any();
    // pre: 0 absent, 1 present-empty, 2 one stored peer Z
    if pre == 1 {
        maps.0[0].write().insert(InfoHash(h), Arc::new(RwLock::new(PeerMap::default())));
    } else if pre == 2 {
        maps.0[0].write().insert(InfoHash(h), Arc::new(RwLock::new(mk_peer_map(&[z], false))));
    }
    let ykey: ResponsePeer<Ipv4AddrBytes> = ResponsePeer { ip_address: Ipv4AddrBytes([10, 0, 0, 2]), port: Port(2000u16.into()) };
    unsafe {
        C04_MAPS = Some(&maps as *const _);
        C04_POINT = 1;
        C04_FIRED = false;
        C04_KIND = kind;
        C04_NOW = now;
        C04_HASH = h;
        C04_B_KEY = (ykey.ip_address, 2000);
        C04_B_SCRAPE = (-1, -1);
    }
    crate::verif_shims::set_probe(Some(c04_injected));
    let config = mk_config(2, false, AccessListMode::Off);
    let (tx, rx) = crossbeam_channel::unbounded();
    let mut rng = any_rng();
    let req = lean_announce(h, [1; 20]);
    let xip = Ipv4AddrBytes([10, 0, 0, 1]);
    let ev = req.event;
    let stopped = ev == AnnounceEvent::Stopped;
    let x_seeder = req.bytes_left.0.get() == 0;

    let resp = maps.announce(&config, &tx, &mut rng, &req, xip, ValidUntil::new_raw(SecondsSinceServerStart::new_raw(u32::MAX)));

    crate::verif_shims::set_probe(None);
    assert!(unsafe { C04_FIRED }, "the gap was never reached");
    assert!(crate::verif_shims::held_total() == 0, "announce left a lock held");
    // quiescent observation
    let mut v = Vec::with_capacity(1);
    v.push(InfoHash(h));
    let sc = maps.scrape(ScrapeRequest { connection_id: ConnectionId::new(0), transaction_id: TransactionId::new(0), info_hashes: v });
    let st = sc.torrent_stats[0];
    let total = (st.seeders.0.get() + st.leechers.0.get()) as usize;
    let z_alive = pre == 2 && !(kind == 0 && z.deadline <= now);
    let want = (if stopped { 0 } else { 1 }) + (if kind == 1 { 1 } else { 0 }) + (if z_alive { 1 } else { 0 });
    assert!(total == want, "an answered announce was lost (or a peer duplicated) under interleaving with the other operation");
    let want_seeders = (if !stopped && x_seeder { 1 } else { 0 }) + (if z_alive && z.seeder { 1 } else { 0 });
    let b_seeder_unknown = kind == 1; // Y's seeder flag is chosen inside the injected announce
    assert!(b_seeder_unknown || st.seeders.0.get() as usize == want_seeders, "seeder count after interleaving");
    // A's reply: counts of the others at A's linearisation point (after B, since B ran in the gap)
    let others_after_b = (if kind == 1 { 1 } else { 0 }) + (if z_alive { 1 } else { 0 });
    let r_total = (resp.fixed.seeders.0.get() + resp.fixed.leechers.0.get()) as usize;
    assert!(r_total == others_after_b, "announce reply counts are not those of a sequential order");
    if kind == 2 {
        // the injected scrape ran before A's insertion: it must see exactly the pre-state
        let b = unsafe { C04_B_SCRAPE };
        assert!((b.0 + b.1) as usize == if pre == 2 { 1 } else { 0 }, "concurrent scrape saw a half-applied announce");
    }
    kani::cover!(!stopped, "X stored");
    std::mem::forget(resp);
    std::mem::forget(sc);
    std::mem::forget(maps);
    std::mem::forget(config);
    std::mem::forget(tx);
    std::mem::forget(rx);
}

/// B = announce of peer Y injected into a gap of a cleaning pass A (point 3: before a torrent's
/// peer map is locked in phase 1; point 4: between phase 1 and the shard write lock of phase 2).
/// T holds one peer Z (possibly expired). Y must survive the pass; Z survives <=> deadline > now.
pub fn c04_clean_gap(point: u8) {
    let maps: TorrentMapShards<Ipv4AddrBytes> = TorrentMapShards::new(1);
    let h: [u8; 20] = [9; 20];
    let z = lean_ent([10, 0, 0, 3], 3000, 3);
    let now: u32 = kani::any();
    maps.0[0].write().insert(InfoHash(h), Arc::new(RwLock::new(mk_peer_map(&[z], false))));
    let ykey: ResponsePeer<Ipv4AddrBytes> = ResponsePeer { ip_address: Ipv4AddrBytes([10, 0, 0, 2]), port: Port(2000u16.into()) };
    unsafe {
        C04_MAPS = Some(&maps as *const _);
        C04_POINT = point;
        C04_FIRED = false;
        C04_KIND = 1;
        C04_NOW = now;
        C04_HASH = h;
        C04_B_KEY = (ykey.ip_address, 2000);
    }
    crate::verif_shims::set_probe(Some(c04_injected));
    let config = mk_config(2, false, AccessListMode::Off);
    let shared = Arc::new(AccessListArcSwap::new(Arc::new(aquatic_common::access_list::AccessList::default())));
    let mut cache = create_access_list_cache(&shared);
    let mut msgs = Vec::new();
    let mut w: Option<BufWriter<File>> = None;
    let (torrents, _peers, _) = maps.clean_and_get_statistics(&config, &mut msgs, &mut cache, AccessListMode::Off, SecondsSinceServerStart::new_raw(now), &mut w);
    crate::verif_shims::set_probe(None);
    assert!(unsafe { C04_FIRED }, "the gap was never reached");
    assert!(crate::verif_shims::held_total() == 0, "cleaning left a lock held");
    let mut v = Vec::with_capacity(1);
    v.push(InfoHash(h));
    let sc = maps.scrape(ScrapeRequest { connection_id: ConnectionId::new(0), transaction_id: TransactionId::new(0), info_hashes: v });
    let st = sc.torrent_stats[0];
    let total = (st.seeders.0.get() + st.leechers.0.get()) as usize;
    let z_alive = z.deadline > now;
    assert!(total == 1 + if z_alive { 1 } else { 0 }, "peer announced during a cleaning pass was lost (or an expired peer kept)");
    assert!(torrents == 1, "torrent with a freshly announced peer not counted / removed by the concurrent cleaning pass");
    std::mem::forget(sc);
    std::mem::forget(maps);
    std::mem::forget(config);
    std::mem::forget(cache);
    std::mem::forget(shared);
    std::mem::forget(msgs);
}

// ------------------------------------------------------------------ C10 / C20 leaf level: per-torrent cleaning

/// `SmallPeerMap::clean_and_get_num_peers` / `LargePeerMap::clean_and_get_num_peers` (+
/// `try_shrink`) on a peer map of exactly N symbolic peers. The three lines of glue that
/// `TorrentMapShards::clean_and_get_statistics` puts around them (dispatch on the variant,
/// shrink a heap map that became small) are replicated here, because the shard-level function
/// itself (Arc<RwLock<..>> maps, two-phase loop) exhausts CBMC's memory even for an empty torrent.
pub fn peermap_clean_leaf<I: KIp, const N: usize, const B: usize>(large: bool, peer_clients: bool) {
    let ents = any_ents::<I, N>();
    let mut m = mk_peer_map(&ents, large);
    let config = mk_config(4, peer_clients, AccessListMode::Off);
    let now: u32 = kani::any();
    let mut msgs: Vec<StatisticsMessage> = Vec::with_capacity(N + 1);
    let nowt = SecondsSinceServerStart::new_raw(now);
    let (rs, rl) = match &mut m {
        PeerMap::Small(s) => s.clean_and_get_num_peers(&config, &mut msgs, nowt),
        PeerMap::Large(l) => {
            let r = l.clean_and_get_num_peers(&config, &mut msgs, nowt);
            if let Some(s) = l.try_shrink() {
                m = PeerMap::Small(s);
            }
            r
        }
    };
    let mut kept = 0usize;
    let mut kept_seeders = 0usize;
    let mut i = 0;
    while i < N {
        if ents[i].deadline > now {
            kept += 1;
            if ents[i].seeder {
                kept_seeders += 1;
            }
        }
        i += 1;
    }
    assert!(rs == kept_seeders && rl == kept - kept_seeders, "counts returned by cleaning != peers whose deadline is in the future");
    let post = snapshot::<I, B>(&m);
    assert!(post.len == kept, "stored peers != peers with deadline in the future");
    assert!(post.inv(), "cached seeder count inconsistent after cleaning");
    assert!(post.seeders() == kept_seeders, "seeder count after cleaning");
    assert!(post.large == (large && kept > SMALL_PEER_MAP_CAPACITY), "heap map must shrink back when <= 2 peers remain");
    assert!(m.is_empty() == (kept == 0), "is_empty after cleaning");
    if N > 0 {
        let j: usize = kani::any();
        kani::assume(j < N);
        let ej = pick(&ents, j);
        let (cnt, found) = post.find(&ej.key);
        if ej.deadline > now {
            match found {
                Some(p) => assert!(cnt == 1 && p.is_seeder == ej.seeder && p.peer_id.0 == ej.peer_id && deadline_is(&p.valid_until, ej.deadline), "live peer changed by cleaning"),
                None => assert!(false, "peer removed before its deadline"),
            }
        } else {
            assert!(found.is_none(), "peer still stored at or after its deadline");
        }
    }
    let nm = msgs.len();
    if peer_clients {
        assert!(nm == N - kept, "number of PeerRemoved messages != expired peers");
        let pid: [u8; 20] = kani::any();
        let mut removed_msgs = 0usize;
        let mut i = 0;
        while i < B {
            if i < nm {
                if let StatisticsMessage::PeerRemoved(p) = &msgs[i] {
                    if p.0 == pid {
                        removed_msgs += 1;
                    }
                } else {
                    assert!(false, "unexpected statistics message from cleaning");
                }
            }
            i += 1;
        }
        let mut expired_with_pid = 0usize;
        let mut i = 0;
        while i < N {
            if ents[i].deadline <= now && ents[i].peer_id == pid {
                expired_with_pid += 1;
            }
            i += 1;
        }
        assert!(removed_msgs == expired_with_pid, "PeerRemoved messages per peer id != expired peers carrying it");
    } else {
        assert!(nm == 0, "statistics messages although peer_clients is off");
    }
    kani::cover!(N == 0 || kept == N, "nothing expired");
    kani::cover!(N == 0 || kept == 0, "everything expired");
    kani::cover!(N < 2 || (kept > 0 && kept < N), "some expired");
    std::mem::forget(msgs);
    std::mem::forget(m);
    std::mem::forget(config);
}
