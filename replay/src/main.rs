//! Native replay for C18 counterexamples: runs the REAL reply writers with the element count the
//! solver chose into a buffer of the real size, the way the trackers do.
//! usage: c18-replay <query-name> <n> <buffer-bytes> ; exit 1 = reply does not fit (reproduced).
use std::collections::BTreeMap;
use std::io::Cursor;
use std::net::{Ipv4Addr, Ipv6Addr};

fn main() {
    let a: Vec<String> = std::env::args().collect();
    let kind = a[1].as_str();
    let n: usize = a[2].parse().unwrap();
    let buf: usize = a[3].parse().unwrap();
    let overflow = if kind.starts_with("udp-") {
        use aquatic_udp_protocol::*;
        let fixed = AnnounceResponseFixedData {
            transaction_id: TransactionId::new(1),
            announce_interval: AnnounceInterval::new(1),
            leechers: NumberOfPeers::new(1),
            seeders: NumberOfPeers::new(1),
        };
        let r = if kind.ends_with("announce-v4") {
            Response::AnnounceIpv4(AnnounceResponse { fixed, peers: vec![ResponsePeer { ip_address: Ipv4AddrBytes([1; 4]), port: Port(1u16.into()) }; n] })
        } else if kind.ends_with("announce-v6") {
            Response::AnnounceIpv6(AnnounceResponse { fixed, peers: vec![ResponsePeer { ip_address: Ipv6AddrBytes([1; 16]), port: Port(1u16.into()) }; n] })
        } else {
            Response::Scrape(ScrapeResponse {
                transaction_id: TransactionId::new(1),
                torrent_stats: vec![TorrentScrapeStatistics { seeders: NumberOfPeers::new(0), completed: NumberOfDownloads::new(0), leechers: NumberOfPeers::new(0) }; n],
            })
        };
        // mio/socket.rs send_response and uring send_buffers: Cursor over the fixed buffer; an error drops the reply
        let mut b = vec![0u8; buf];
        let mut c = Cursor::new(&mut b[..]);
        r.write_bytes(&mut c).is_err()
    } else {
        use aquatic_http_protocol::common::InfoHash;
        use aquatic_http_protocol::response::*;
        let r = if kind == "http-announce-v4" {
            Response::Announce(AnnounceResponse {
                announce_interval: 0,
                complete: 0,
                incomplete: 0,
                peers: ResponsePeerListV4(vec![ResponsePeer { ip_address: Ipv4Addr::new(1, 1, 1, 1), port: 1 }; n]),
                peers6: ResponsePeerListV6(vec![]),
                warning_message: None,
            })
        } else if kind == "http-announce-v6" {
            Response::Announce(AnnounceResponse {
                announce_interval: 0,
                complete: 0,
                incomplete: 0,
                peers: ResponsePeerListV4(vec![]),
                peers6: ResponsePeerListV6(vec![ResponsePeer { ip_address: Ipv6Addr::LOCALHOST, port: 1 }; n]),
                warning_message: None,
            })
        } else {
            let mut files = BTreeMap::new();
            for i in 0..n {
                let mut h = [b'a'; 20];
                h[0] = b'a' + (i / 26) as u8;
                h[1] = b'a' + (i % 26) as u8;
                files.insert(InfoHash(h), ScrapeStatistics { complete: 0, incomplete: 0, downloaded: 0 });
            }
            Response::Scrape(ScrapeResponse { files })
        };
        // connection.rs write_response: body into the rest of the response buffer, then
        // `position + 2 > len` closes the connection (buf = space for the body, 2 more for CRLF)
        let mut b = vec![0u8; buf + 2];
        let body_len = r.write_bytes(&mut &mut b[..]).unwrap();
        body_len + 2 > buf + 2
    };
    println!("{} n={} buffer={} -> {}", kind, n, buf, if overflow { "DOES NOT FIT" } else { "fits" });
    std::process::exit(if overflow { 1 } else { 0 });
}
