//! C11 (access list): proof wrappers around bodies mounted inside aquatic_common::access_list.
use aquatic_common::access_list::verif_harness as h;
use aquatic_common::access_list::AccessList;

#[kani::proof]
#[kani::unwind(44)]
#[kani::stub(std::backtrace::Backtrace::capture, crate::backtrace_stub)]
fn c11_parse_info_hash_ascii() {
    h::c11_parse_info_hash_ascii();
}

#[kani::proof]
#[kani::unwind(44)]
#[kani::stub(std::backtrace::Backtrace::capture, crate::backtrace_stub)]
fn c11_parse_info_hash_non_ascii() {
    h::c11_parse_info_hash_non_ascii();
}

#[kani::proof]
#[kani::unwind(22)]
fn c11_allows_truth_table_n0() {
    h::c11_allows_truth_table::<0>();
}
#[kani::proof]
#[kani::unwind(22)]
fn c11_allows_truth_table_n1() {
    h::c11_allows_truth_table::<1>();
}
#[kani::proof]
#[kani::unwind(22)]
fn c11_allows_truth_table_n2() {
    h::c11_allows_truth_table::<2>();
}

#[kani::proof]
#[kani::unwind(22)]
#[kani::stub(std::backtrace::Backtrace::capture, crate::backtrace_stub)]
#[kani::stub(aquatic_common::access_list::AccessList::create_from_path, aquatic_common::access_list::verif_harness::stub_create_from_path)]
fn c11_update_keeps_old_on_error() {
    h::c11_update_keeps_old_on_error();
}

#[cfg(verif_pb_c11)]
include!(env!("VERIF_PLAYBACK_FILE"));
