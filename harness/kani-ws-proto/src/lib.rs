//! Kani harnesses over the real `aquatic_ws_protocol` crate (C15, C12).
#![allow(dead_code)]
#[cfg(kani)]
mod c15;
#[cfg(kani)]
mod c15m;

#[cfg(kani)]
pub fn format_stub(_a: std::fmt::Arguments<'_>) -> String {
    String::new()
}
