//! Mounted inside aquatic_ws `workers::swarm::storage` (guarded `#[path]`), so private fields
//! are reachable. Step harnesses for C08 (bookkeeping + per-connection ownership), C09 (offer /
//! answer relaying) and C10 (expiry of peers and pending offers): arbitrary pre-state of exactly
//! N stored peers in one torrent, one real operation, reference relation + invariant.
#![allow(dead_code)]
use super::*;
use aquatic_ws_protocol::incoming::ScrapeRequestInfoHashes;
use aquatic_common::access_list::{AccessList, AccessListConfig, AccessListMode};
use aquatic_common::privileges::PrivilegeConfig;
use std::net::SocketAddr;
use std::path::PathBuf;

use crate::config::*;

pub fn mk_config(max_offers: usize, max_scrape_torrents: usize, max_peer_age: u32, max_offer_age: u32, mode: AccessListMode) -> Config {
    Config {
        socket_workers: 1,
        swarm_workers: 1,
        log_level: Default::default(),
        network: NetworkConfig {
            address: SocketAddr::from(([0, 0, 0, 0], 3000)),
            only_ipv6: false,
            tcp_backlog: 1024,
            enable_tls: false,
            tls_certificate_path: PathBuf::new(),
            tls_private_key_path: PathBuf::new(),
            websocket_max_message_size: 65536,
            websocket_max_frame_size: 16384,
            websocket_write_buffer_size: 8192,
            enable_http_health_checks: false,
        },
        protocol: ProtocolConfig { max_scrape_torrents, max_offers, peer_announce_interval: 120 },
        cleaning: CleaningConfig {
            torrent_cleaning_interval: 30,
            max_peer_age,
            max_offer_age,
            connection_cleaning_interval: 30,
            max_connection_idle: 180,
            close_after_tls_update_grace_period: 216000,
        },
        privileges: PrivilegeConfig { drop_privileges: false, chroot_path: PathBuf::new(), group: String::new(), user: String::new() },
        access_list: AccessListConfig { mode, path: PathBuf::new() },
    }
}

/// Arbitrary generator state; see the UDP harness for the rationale.
pub fn any_rng() -> SmallRng {
    let s: [u64; 4] = kani::any();
    kani::assume(s[0] != 0 || s[1] != 0 || s[2] != 0 || s[3] != 0);
    unsafe { std::mem::transmute::<[u64; 4], SmallRng>(s) }
}

pub fn conn(idx: u32) -> ConnectionId {
    // slot-map key: (index, version); per-worker slot maps make indices coincide across workers
    ConnectionId::from(slotmap::KeyData::from_ffi((1u64 << 32) | idx as u64))
}

#[derive(Clone, Copy)]
pub struct WEnt {
    pub pid: [u8; 20],
    pub consumer: u8,
    pub conn: u32,
    pub seeder: bool,
    pub deadline: u32,
    /// at most one pending offer: (answering peer, offer id, deadline)
    pub has_exp: bool,
    pub exp_from: [u8; 20],
    pub exp_offer: [u8; 20],
    pub exp_deadline: u32,
}

pub fn any_went() -> WEnt {
    WEnt {
        pid: kani::any(),
        consumer: kani::any(),
        conn: kani::any(),
        seeder: kani::any(),
        deadline: kani::any(),
        has_exp: kani::any(),
        exp_from: kani::any(),
        exp_offer: kani::any(),
        exp_deadline: kani::any(),
    }
}

pub fn any_wents<const N: usize>() -> [WEnt; N] {
    let mut a = [any_went(); N];
    let mut i = 0;
    while i < N {
        a[i] = any_went();
        let mut j = 0;
        while j < i {
            kani::assume(a[j].pid != a[i].pid);
            j += 1;
        }
        i += 1;
    }
    a
}

fn raw(d: u32) -> ValidUntil {
    ValidUntil::new_raw(SecondsSinceServerStart::new_raw(d))
}

fn deadline_is(v: &ValidUntil, d: u32) -> bool {
    let t: u32 = kani::any();
    v.valid(SecondsSinceServerStart::new_raw(t)) == (d > t)
}

pub fn mk_torrent<const N: usize>(ents: &[WEnt; N]) -> TorrentData {
    let mut t = TorrentData::default();
    let mut i = 0;
    while i < N {
        let mut exp: IndexMap<ExpectingAnswer, ValidUntil> = Default::default();
        if ents[i].has_exp {
            exp.push_unchecked(
                ExpectingAnswer { from_peer_id: PeerId(ents[i].exp_from), regarding_offer_id: OfferId(ents[i].exp_offer) },
                raw(ents[i].exp_deadline),
            );
        }
        t.peers.push_unchecked(
            PeerId(ents[i].pid),
            Peer {
                consumer_id: ConsumerId(ents[i].consumer),
                connection_id: conn(ents[i].conn),
                seeder: ents[i].seeder,
                valid_until: raw(ents[i].deadline),
                expecting_answers: exp,
            },
        );
        if ents[i].seeder {
            t.num_seeders += 1;
        }
        i += 1;
    }
    t
}

pub fn mk_map<const N: usize>(h: [u8; 20], ents: &[WEnt; N]) -> TorrentMap {
    let mut m = TorrentMap::new(0, IpVersion::V4);
    m.torrents.push_unchecked(InfoHash(h), mk_torrent(ents));
    m
}

/// (count, seeder, consumer, conn, valid_until, #expectations) of a stored peer id
fn find<const B: usize>(t: &TorrentData, pid: &[u8; 20]) -> (usize, Option<(bool, u8, ConnectionId, ValidUntil, usize)>) {
    let mut c = 0;
    let mut f = None;
    let mut i = 0;
    while i < B {
        if let Some((k, p)) = t.peers.get_index(i) {
            if k.0 == *pid {
                c += 1;
                f = Some((p.seeder, p.consumer_id.0, p.connection_id, p.valid_until, p.expecting_answers.len()));
            }
        }
        i += 1;
    }
    (c, f)
}

fn seeders<const B: usize>(t: &TorrentData) -> usize {
    let mut c = 0;
    let mut i = 0;
    while i < B {
        if let Some((_, p)) = t.peers.get_index(i) {
            if p.seeder {
                c += 1;
            }
        }
        i += 1;
    }
    c
}

pub fn any_event() -> Option<AnnounceEvent> {
    let e: u8 = kani::any();
    kani::assume(e < 5);
    match e {
        0 => None,
        1 => Some(AnnounceEvent::Started),
        2 => Some(AnnounceEvent::Stopped),
        3 => Some(AnnounceEvent::Completed),
        _ => Some(AnnounceEvent::Update),
    }
}

pub fn any_left() -> Option<usize> {
    if kani::any() {
        Some(kani::any())
    } else {
        None
    }
}

pub fn bare_request(h: [u8; 20], pid: [u8; 20]) -> AnnounceRequest {
    AnnounceRequest {
        action: AnnounceAction::Announce,
        info_hash: InfoHash(h),
        peer_id: PeerId(pid),
        bytes_left: any_left(),
        event: any_event(),
        offers: None,
        numwant: None,
        answer: None,
        answer_to_peer_id: None,
        answer_offer_id: None,
    }
}

// ------------------------------------------------------------------ C08: announce step

/// One `TorrentMap::handle_announce_request` (no offers / answer) on a torrent of N peers.
pub fn c08_announce_step<const N: usize, const B: usize>() {
    let h: [u8; 20] = kani::any();
    let ents = any_wents::<N>();
    let mut m = mk_map(h, &ents);
    let now: u32 = kani::any();
    let age: u32 = kani::any();
    kani::assume(now as u64 + age as u64 <= u32::MAX as u64);
    aquatic_common::verif_shims::set_mock_clock(Some(now));
    let config = mk_config(2, 4, age, 60, AccessListMode::Off);
    let mut rng = any_rng();
    let mut out: Vec<(OutMessageMeta, OutMessage)> = Vec::with_capacity(2);
    let pid: [u8; 20] = kani::any();
    let req = bare_request(h, pid);
    let stopped = req.event == Some(AnnounceEvent::Stopped);
    let seeder = req.bytes_left == Some(0);
    let c2: u8 = kani::any();
    let k2: u32 = kani::any();
    let meta = InMessageMeta { out_message_consumer_id: ConsumerId(c2), connection_id: conn(k2), ip_version: IpVersion::V4, pending_scrape_id: None };

    m.handle_announce_request(&config, &mut rng, &mut out, aquatic_common::ServerStartInstant::new(), meta, req);

    // reference
    let mut present = false;
    let mut owner = (0u8, 0u32);
    let mut old_seeder = false;
    let mut others = 0usize;
    let mut other_seeders = 0usize;
    let mut i = 0;
    while i < N {
        if ents[i].pid == pid {
            present = true;
            owner = (ents[i].consumer, ents[i].conn);
            old_seeder = ents[i].seeder;
        } else {
            others += 1;
            if ents[i].seeder {
                other_seeders += 1;
            }
        }
        i += 1;
    }
    let foreign = present && owner != (c2, k2);
    let t = match m.torrents.get(&InfoHash(h)) {
        Some(t) => t,
        None => {
            assert!(false, "torrent vanished");
            return;
        }
    };
    if foreign {
        // ownership: an announce using another connection's peer id is ignored entirely
        assert!(out.len() == 0, "announce with a peer id owned by another connection must get no reply");
        assert!(t.peers.len() == N, "announce with a peer id owned by another connection changed the swarm");
        let (cnt, f) = find::<B>(t, &pid);
        match f {
            Some((s, c, k, vu, _)) => {
                assert!(cnt == 1 && s == old_seeder && c == owner.0 && k == conn(owner.1), "entry owned by another connection was modified");
                let mut j = 0;
                while j < N {
                    if ents[j].pid == pid {
                        assert!(deadline_is(&vu, ents[j].deadline), "deadline of an entry owned by another connection was changed");
                    }
                    j += 1;
                }
            }
            None => assert!(false, "entry owned by another connection was removed"),
        }
        assert!(t.num_seeders == seeders::<B>(t), "cached seeder count inconsistent");
    } else {
        let want_len = if stopped { others } else { others + 1 };
        let want_seeders = other_seeders + if !stopped && seeder { 1 } else { 0 };
        assert!(t.peers.len() == want_len, "stored peer count != reference");
        assert!(t.num_seeders == want_seeders, "cached seeder count != reference");
        assert!(seeders::<B>(t) == want_seeders, "stored seeders != reference");
        let (cnt, f) = find::<B>(t, &pid);
        match f {
            Some((s, c, k, vu, _)) => {
                assert!(!stopped, "stopped peer still stored");
                assert!(cnt == 1, "peer stored twice");
                assert!(s == seeder, "left == 0 <=> seeder violated");
                assert!(deadline_is(&vu, now + age), "announce must set deadline = now + max_peer_age");
                if present {
                    assert!(c == owner.0 && k == conn(owner.1), "owner changed by re-announce");
                } else {
                    assert!(c == c2 && k == conn(k2), "new entry must be owned by the announcing connection");
                }
            }
            None => assert!(stopped, "announcing peer not stored"),
        }
        // exactly one reply, to the sender, with counts that include the announcer
        assert!(out.len() == 1, "announce must get exactly one reply");
        let (om, msg) = &out[0];
        assert!(om.out_message_consumer_id.0 == c2 && om.connection_id == conn(k2), "reply addressed to the wrong connection");
        match msg {
            OutMessage::AnnounceResponse(r) => {
                assert!(r.info_hash.0 == h, "reply info hash");
                assert!(r.complete == want_seeders, "complete != stored seeders (announcer included)");
                assert!(r.incomplete == want_len - want_seeders, "incomplete != stored leechers (announcer included)");
            }
            _ => assert!(false, "announce answered with another message kind"),
        }
    }
    // every other entry untouched
    if N > 0 {
        let j: usize = kani::any();
        kani::assume(j < N);
        if ents[j].pid != pid {
            let (cnt, f) = find::<B>(t, &ents[j].pid);
            match f {
                Some((s, c, k, vu, ne)) => assert!(
                    cnt == 1 && s == ents[j].seeder && c == ents[j].consumer && k == conn(ents[j].conn) && deadline_is(&vu, ents[j].deadline) && ne == if ents[j].has_exp { 1 } else { 0 },
                    "another peer's entry changed by announce"
                ),
                None => assert!(false, "another peer's entry lost by announce"),
            }
        }
    }
    kani::cover!(foreign, "foreign peer id");
    kani::cover!(present && !foreign && !stopped, "owner re-announces");
    kani::cover!(present && !foreign && stopped, "owner stops");
    kani::cover!(!present && !stopped, "new peer");
    std::mem::forget(out);
    std::mem::forget(m);
    std::mem::forget(config);
}

// ------------------------------------------------------------------ C08: scrape

pub fn c08_scrape<const N: usize, const K: usize>() {
    let h: [u8; 20] = kani::any();
    let ents = any_wents::<N>();
    let mut m = mk_map(h, &ents);
    let max: usize = kani::any();
    kani::assume(max <= 3);
    let config = mk_config(2, max, 100, 60, AccessListMode::Off);
    let mut out: Vec<(OutMessageMeta, OutMessage)> = Vec::with_capacity(2);
    let hs: [[u8; 20]; K] = kani::any();
    let mut v = Vec::with_capacity(K);
    let mut i = 0;
    while i < K {
        v.push(InfoHash(hs[i]));
        i += 1;
    }
    let c2: u8 = kani::any();
    let k2: u32 = kani::any();
    let meta = InMessageMeta { out_message_consumer_id: ConsumerId(c2), connection_id: conn(k2), ip_version: IpVersion::V4, pending_scrape_id: Some(PendingScrapeId(kani::any())) };
    let req = ScrapeRequest { action: ScrapeAction::Scrape, info_hashes: Some(ScrapeRequestInfoHashes::Multiple(v)) };
    m.handle_scrape_request(&config, &mut out, meta, req);
    assert!(out.len() == 1, "scrape must get exactly one reply");
    let (om, msg) = &out[0];
    assert!(om.out_message_consumer_id.0 == c2 && om.connection_id == conn(k2) && om.pending_scrape_id.is_some(), "scrape reply addressed to the wrong connection / pending id lost");
    let mut ns = 0usize;
    let mut i = 0;
    while i < N {
        if ents[i].seeder {
            ns += 1;
        }
        i += 1;
    }
    match msg {
        OutMessage::ScrapeResponse(r) => {
            // requested (among the first max) and stored <=> listed, with true counts
            let mut requested = false;
            let mut i = 0;
            while i < K {
                if i < max && hs[i] == h {
                    requested = true;
                }
                i += 1;
            }
            match r.files.get(&InfoHash(h)) {
                Some(st) => {
                    assert!(requested, "scrape lists a torrent that was not requested");
                    assert!(st.complete == ns && st.incomplete == N - ns, "scrape counts != stored peers");
                }
                None => assert!(!requested, "requested stored torrent missing from scrape reply"),
            }
            // nothing else with a count: every listed key is the stored torrent
            assert!(r.files.len() == if requested { 1 } else { 0 }, "scrape lists torrents without stored peers");
        }
        _ => assert!(false, "scrape answered with another message kind"),
    }
    kani::cover!(max == 0 && K > 0, "scrape cut to nothing");
    std::mem::forget(out);
    std::mem::forget(m);
    std::mem::forget(config);
}

// ------------------------------------------------------------------ C08 / C10 / C11: clean

pub fn c08_clean_step<const N: usize, const B: usize>() {
    let h: [u8; 20] = kani::any();
    let ents = any_wents::<N>();
    let mut m = mk_map(h, &ents);
    let mode = {
        let x: u8 = kani::any();
        kani::assume(x < 3);
        match x {
            0 => AccessListMode::Allow,
            1 => AccessListMode::Deny,
            _ => AccessListMode::Off,
        }
    };
    let config = mk_config(2, 4, 100, 60, mode);
    let listed: [u8; 20] = kani::any();
    let list_nonempty: bool = kani::any();
    let mut list = AccessList::default();
    if list_nonempty {
        list.insert_raw_for_verif(listed);
    }
    let shared = Arc::new(AccessListArcSwap::new(Arc::new(list)));
    let mut cache = create_access_list_cache(&shared);
    let now: u32 = kani::any();
    m.clean(&config, &mut cache, SecondsSinceServerStart::new_raw(now));
    let member = list_nonempty && listed == h;
    let allowed = match mode {
        AccessListMode::Allow => member,
        AccessListMode::Deny => !member,
        AccessListMode::Off => true,
    };
    let mut kept = 0usize;
    let mut kept_seeders = 0usize;
    let mut i = 0;
    while i < N {
        if ents[i].deadline > now {
            kept += 1;
            if ents[i].seeder {
                kept_seeders += 1;
            }
        }
        i += 1;
    }
    match m.torrents.get(&InfoHash(h)) {
        None => assert!(!(allowed && kept > 0), "permitted torrent with live peers removed by cleaning"),
        Some(t) => {
            assert!(allowed, "torrent forbidden by the access list survived cleaning");
            assert!(kept > 0, "torrent without peers survived cleaning");
            assert!(t.peers.len() == kept, "stored peers != peers with deadline in the future");
            assert!(t.num_seeders == kept_seeders && seeders::<B>(t) == kept_seeders, "seeder count after cleaning");
            if N > 0 {
                let j: usize = kani::any();
                kani::assume(j < N);
                let (cnt, f) = find::<B>(t, &ents[j].pid);
                if ents[j].deadline > now {
                    match f {
                        Some((s, c, k, vu, ne)) => {
                            assert!(cnt == 1 && s == ents[j].seeder && c == ents[j].consumer && k == conn(ents[j].conn) && deadline_is(&vu, ents[j].deadline), "live peer changed by cleaning");
                            // C10 (offers): a pending offer survives <=> its own deadline > now
                            let want = if ents[j].has_exp && ents[j].exp_deadline > now { 1 } else { 0 };
                            assert!(ne == want, "pending offer kept/removed contrary to its deadline");
                        }
                        None => assert!(false, "peer removed before its deadline"),
                    }
                } else {
                    assert!(f.is_none(), "peer still stored at or after its deadline");
                }
            }
        }
    }
    kani::cover!(N == 0 || kept == N, "nothing expired");
    kani::cover!(N < 2 || (kept > 0 && kept < N), "some expired");
    kani::cover!(!allowed, "forbidden");
    std::mem::forget(m);
    std::mem::forget(config);
    std::mem::forget(cache);
    std::mem::forget(shared);
}

// ------------------------------------------------------------------ C08: close

pub fn c08_close_step<const N: usize, const B: usize>() {
    let h: [u8; 20] = kani::any();
    let ents = any_wents::<N>();
    let mut m = mk_map(h, &ents);
    let h2: [u8; 20] = kani::any();
    let pid: [u8; 20] = kani::any();
    // identity of the connection that closed (socket worker id + per-worker slot key)
    let c2: u8 = kani::any();
    let k2: u32 = kani::any();
    m.handle_connection_closed(InfoHash(h2), PeerId(pid), ConsumerId(c2), conn(k2));
    let t = m.torrents.get(&InfoHash(h)).unwrap();
    let mut present = false;
    let mut owned = false;
    let mut was_seeder = false;
    let mut ns = 0usize;
    let mut i = 0;
    while i < N {
        if ents[i].pid == pid {
            present = true;
            owned = ents[i].consumer == c2 && ents[i].conn == k2;
            was_seeder = ents[i].seeder;
        }
        if ents[i].seeder {
            ns += 1;
        }
        i += 1;
    }
    let removed = present && owned && h2 == h;
    assert!(t.peers.len() == if removed { N - 1 } else { N }, "closing a connection removes exactly the named entry of the named torrent, and only if that connection created it");
    assert!(t.num_seeders == ns - if removed && was_seeder { 1 } else { 0 }, "seeder count after close");
    assert!(t.num_seeders == seeders::<B>(t), "cached seeder count inconsistent after close");
    let (_, f) = find::<B>(t, &pid);
    assert!(f.is_some() == (present && !removed), "closed entry still stored / entry of another connection removed by a close");
    if let Some((sd, cons, cn, _vu, _ne)) = f {
        let j: usize = kani::any();
        kani::assume(j < N);
        if ents[j].pid == pid {
            assert!(sd == ents[j].seeder && cons == ents[j].consumer && cn == conn(ents[j].conn), "surviving entry changed by a close");
        }
    }
    kani::cover!(removed, "entry removed by its own connection");
    kani::cover!(present && !owned && h2 == h, "close from a connection that does not own the entry");
    std::mem::forget(m);
}

// ------------------------------------------------------------------ C09: offers

pub fn c09_offers_step<const N: usize, const B: usize, const K: usize>() {
    let h: [u8; 20] = kani::any();
    let ents = any_wents::<N>();
    let mut m = mk_map(h, &ents);
    let now: u32 = kani::any();
    kani::assume(now < u32::MAX - 1000);
    aquatic_common::verif_shims::set_mock_clock(Some(now));
    let max_offers: usize = kani::any();
    kani::assume(max_offers <= 3);
    let config = mk_config(max_offers, 4, 100, 60, AccessListMode::Off);
    let mut rng = any_rng();
    let mut out: Vec<(OutMessageMeta, OutMessage)> = Vec::with_capacity(K + 1);
    // the sender is a fresh peer (not stored, so no ownership question) announcing K offers
    let pid: [u8; 20] = kani::any();
    let mut i = 0;
    while i < N {
        kani::assume(ents[i].pid != pid);
        i += 1;
    }
    let offer_ids: [[u8; 20]; K] = kani::any();
    let mut offers = Vec::with_capacity(K);
    let mut i = 0;
    while i < K {
        offers.push(AnnounceRequestOffer { offer: RtcOffer { t: RtcOfferType::Offer, sdp: String::new() }, offer_id: OfferId(offer_ids[i]) });
        i += 1;
    }
    let mut req = bare_request(h, pid);
    req.offers = Some(offers);
    let stopped = req.event == Some(AnnounceEvent::Stopped);
    let c2: u8 = kani::any();
    let k2: u32 = kani::any();
    let meta = InMessageMeta { out_message_consumer_id: ConsumerId(c2), connection_id: conn(k2), ip_version: IpVersion::V4, pending_scrape_id: None };

    m.handle_announce_request(&config, &mut rng, &mut out, aquatic_common::ServerStartInstant::new(), meta, req);

    let mut want = K;
    if max_offers < want {
        want = max_offers;
    }
    if N < want {
        want = N;
    }
    if stopped {
        want = 0;
    }
    assert!(out.len() == want + 1, "forwarded offers != min(offers, max_offers, other peers) (+ the announce reply)");
    // last message is the reply to the sender
    match &out[want] {
        (om, OutMessage::AnnounceResponse(_)) => assert!(om.out_message_consumer_id.0 == c2 && om.connection_id == conn(k2), "announce reply addressed to the wrong connection"),
        _ => assert!(false, "last message must be the announce reply"),
    }
    let t = m.torrents.get(&InfoHash(h)).unwrap();
    if want > 0 {
        let a: usize = kani::any();
        kani::assume(a < want);
        match &out[a] {
            (om, OutMessage::OfferOutMessage(o)) => {
                assert!(o.peer_id.0 == pid, "offer must be tagged with the sender's peer id");
                assert!(o.info_hash.0 == h, "offer info hash");
                assert!(o.offer_id.0 == offer_ids[a], "offer i must carry offer id i");
                // addressed to a stored peer's own connection, never the sender
                let mut rcv = None;
                let mut i = 0;
                while i < N {
                    if om.out_message_consumer_id.0 == ents[i].consumer && om.connection_id == conn(ents[i].conn) {
                        // identify the receiver through the sender's new expectation below
                        rcv = Some(i);
                    }
                    i += 1;
                }
                assert!(rcv.is_some(), "offer addressed to a connection that owns no stored peer of this torrent");
                // the sender now expects an answer for exactly this offer from the receiver
                let sp = t.peers.get(&PeerId(pid)).unwrap();
                let mut matches = 0usize;
                let mut i = 0;
                while i < B {
                    if let Some((ea, vu)) = sp.expecting_answers.get_index(i) {
                        if ea.regarding_offer_id.0 == offer_ids[a] {
                            // receiver must be a stored other peer whose connection got the offer
                            let mut j = 0;
                            while j < N {
                                if ents[j].pid == ea.from_peer_id.0 && om.out_message_consumer_id.0 == ents[j].consumer && om.connection_id == conn(ents[j].conn) {
                                    matches += 1;
                                    assert!(deadline_is(vu, now + 60), "offer expectation deadline = now + max_offer_age");
                                }
                                j += 1;
                            }
                        }
                        assert!(ea.from_peer_id.0 != pid, "sender recorded as its own offer receiver");
                    }
                    i += 1;
                }
                assert!(matches >= 1, "forwarded offer without a matching expectation (receiver, offer id)");
                // distinct offers go to distinct peers
                let b: usize = kani::any();
                kani::assume(b < want && b != a);
                match &out[b] {
                    (om2, OutMessage::OfferOutMessage(_)) => {
                        // two offers may only share a connection if two stored peers share it
                        let mut owners = 0usize;
                        let mut i = 0;
                        while i < N {
                            if om2.out_message_consumer_id.0 == ents[i].consumer && om2.connection_id == conn(ents[i].conn) {
                                owners += 1;
                            }
                            i += 1;
                        }
                        let same = om2.out_message_consumer_id.0 == om.out_message_consumer_id.0 && om2.connection_id == om.connection_id;
                        assert!(!same || owners >= 2, "two offers of one announce forwarded to the same peer");
                    }
                    _ => assert!(false, "offer slot holds another message kind"),
                }
            }
            _ => assert!(false, "offer slot holds another message kind"),
        }
    }
    if !stopped {
        let sp = t.peers.get(&PeerId(pid)).unwrap();
        assert!(sp.expecting_answers.len() <= want, "more expectations recorded than offers forwarded");
    }
    kani::cover!(want == 2, "two offers forwarded");
    kani::cover!(K > 0 && want == 0 && !stopped, "offers dropped (no receivers or max_offers 0)");
    std::mem::forget(out);
    std::mem::forget(m);
    std::mem::forget(config);
}

// ------------------------------------------------------------------ C09: answers

pub fn c09_answer_step<const N: usize, const B: usize>() {
    let h: [u8; 20] = kani::any();
    let ents = any_wents::<N>();
    let mut m = mk_map(h, &ents);
    let now: u32 = kani::any();
    kani::assume(now < u32::MAX - 1000);
    aquatic_common::verif_shims::set_mock_clock(Some(now));
    let config = mk_config(2, 4, 100, 60, AccessListMode::Off);
    let mut rng = any_rng();
    let mut out: Vec<(OutMessageMeta, OutMessage)> = Vec::with_capacity(2);
    // answering peer P: fresh peer id (not stored) so that it is always processed
    let pid: [u8; 20] = kani::any();
    let mut i = 0;
    while i < N {
        kani::assume(ents[i].pid != pid);
        i += 1;
    }
    let to: [u8; 20] = kani::any();
    let oid: [u8; 20] = kani::any();
    let mut req = bare_request(h, pid);
    kani::assume(req.event != Some(AnnounceEvent::Stopped));
    req.answer = Some(RtcAnswer { t: RtcAnswerType::Answer, sdp: String::new() });
    req.answer_to_peer_id = Some(PeerId(to));
    req.answer_offer_id = Some(OfferId(oid));
    let c2: u8 = kani::any();
    let k2: u32 = kani::any();
    let meta = InMessageMeta { out_message_consumer_id: ConsumerId(c2), connection_id: conn(k2), ip_version: IpVersion::V4, pending_scrape_id: None };

    m.handle_announce_request(&config, &mut rng, &mut out, aquatic_common::ServerStartInstant::new(), meta, req);

    // reference: receiver R stored? does R expect (P, oid)?
    let mut r_idx = None;
    let mut i = 0;
    while i < N {
        if ents[i].pid == to {
            r_idx = Some(i);
        }
        i += 1;
    }
    let to_self = to == pid; // P addressed itself: P is stored by now, expects nothing
    let expected = match r_idx {
        Some(i) => ents[i].has_exp && ents[i].exp_from == pid && ents[i].exp_offer == oid,
        None => false,
    };
    let t = m.torrents.get(&InfoHash(h)).unwrap();
    if expected {
        let ri = r_idx.unwrap();
        assert!(out.len() == 2, "answer + announce reply expected");
        match &out[0] {
            (om, OutMessage::AnswerOutMessage(a)) => {
                assert!(om.out_message_consumer_id.0 == ents[ri].consumer && om.connection_id == conn(ents[ri].conn), "answer must go to the offering peer's connection only");
                assert!(a.peer_id.0 == pid && a.offer_id.0 == oid && a.info_hash.0 == h, "answer payload");
            }
            _ => assert!(false, "expected a forwarded answer"),
        }
        // consumed: a second identical answer can no longer be forwarded
        let rp = t.peers.get(&PeerId(to)).unwrap();
        assert!(rp.expecting_answers.len() == 0, "answered offer still pending (could be answered twice)");
    } else if r_idx.is_some() || to_self {
        assert!(out.len() == 2, "error + announce reply expected");
        match &out[0] {
            (om, OutMessage::ErrorResponse(_)) => assert!(om.out_message_consumer_id.0 == c2 && om.connection_id == conn(k2), "error must go back to the answering connection"),
            (_, OutMessage::AnswerOutMessage(_)) => assert!(false, "answer forwarded without a matching pending offer"),
            _ => assert!(false, "unexpected message"),
        }
        if let Some(ri) = r_idx {
            let rp = t.peers.get(&PeerId(to)).unwrap();
            assert!(rp.expecting_answers.len() == if ents[ri].has_exp { 1 } else { 0 }, "unrelated pending offer consumed by a non-matching answer");
        }
    } else {
        assert!(out.len() == 1, "answer to an absent peer must produce nothing but the announce reply");
    }
    match &out[out.len() - 1] {
        (_, OutMessage::AnnounceResponse(_)) => {}
        _ => assert!(false, "last message must be the announce reply"),
    }
    kani::cover!(expected, "answer forwarded");
    kani::cover!(!expected && r_idx.is_some(), "answer rejected with error");
    kani::cover!(r_idx.is_none() && !to_self, "answer to absent peer");
    std::mem::forget(out);
    std::mem::forget(m);
    std::mem::forget(config);
}

pub fn smoke() {
    let m = TorrentMap::new(0, IpVersion::V4);
    assert!(m.torrents.len() == 0);
    std::mem::forget(m);
}

// ------------------------------------------------------------------ C02: WebTorrent receiver selection

/// `extract_response_peers` (the function that picks offer receivers) on a map of exactly N
/// peers with small keys (u8 -> u8; the function is generic and never looks at the value),
/// arbitrary limit, arbitrary sender key (present or not), every RNG state:
/// result <= limit, distinct, members, never the sender; all others when they fit the limit,
/// otherwise exactly `limit`.
pub fn c02_ws_extract<const N: usize>() {
    let keys: [u8; N] = kani::any();
    let mut m: IndexMap<u8, u8> = Default::default();
    let mut i = 0;
    while i < N {
        let mut j = 0;
        while j < i {
            kani::assume(keys[j] != keys[i]);
            j += 1;
        }
        m.push_unchecked(keys[i], keys[i]);
        i += 1;
    }
    let limit: usize = kani::any();
    kani::assume(limit <= N + 2);
    let sender: u8 = kani::any();
    let mut rng = any_rng();
    let v: Vec<u8> = extract_response_peers(&mut rng, &m, limit, sender, |k, _| *k);
    let mut others = 0usize;
    let mut i = 0;
    while i < N {
        if keys[i] != sender {
            others += 1;
        }
        i += 1;
    }
    let k = v.len();
    assert!(k <= limit, "more receivers than the limit");
    if others <= limit {
        assert!(k == others, "all other members must be selected when they fit the limit");
    } else {
        assert!(k == limit, "exactly limit receivers must be selected from a larger swarm");
    }
    assert!(k <= N, "harness bound");
    let mut out = [0u8; N];
    let mut i = 0;
    while i < N {
        if i < k {
            out[i] = v[i];
        }
        i += 1;
    }
    let mut i = 0;
    while i < N {
        if i < k {
            assert!(out[i] != sender, "sender selected as its own receiver");
            let mut member = false;
            let mut dup = 0usize;
            let mut j = 0;
            while j < N {
                if keys[j] == out[i] {
                    member = true;
                }
                if j < k && out[j] == out[i] {
                    dup += 1;
                }
                j += 1;
            }
            assert!(member, "selected receiver is not a stored member");
            assert!(dup == 1, "receiver selected twice");
        }
        i += 1;
    }
    kani::cover!(N < 3 || (others > limit && limit >= 1), "random selection branch");
    std::mem::forget(v);
}

/// C09, lean variant for one stored receiver R and one offer (the general harness above exceeds
/// 44 GB at N=1): fresh sender S announces one offer; exactly one OfferOutMessage goes to R's own
/// connection, tagged with S's peer id and the offer id (unless max_offers == 0 or S stops), S
/// records exactly the expectation (R, offer id) with deadline clock+max_offer_age; the last
/// message is the announce reply to S.
pub fn c09_offer_one() {
    let h: [u8; 20] = kani::any();
    let ents = any_wents::<1>();
    let mut m = mk_map(h, &ents);
    let now: u32 = kani::any();
    kani::assume(now < u32::MAX - 1000);
    aquatic_common::verif_shims::set_mock_clock(Some(now));
    let max_offers: usize = kani::any();
    kani::assume(max_offers <= 2);
    let config = mk_config(max_offers, 4, 100, 60, AccessListMode::Off);
    let mut rng = any_rng();
    let mut out: Vec<(OutMessageMeta, OutMessage)> = Vec::with_capacity(2);
    let pid: [u8; 20] = kani::any();
    kani::assume(ents[0].pid != pid);
    let oid: [u8; 20] = kani::any();
    let mut offers = Vec::with_capacity(1);
    offers.push(AnnounceRequestOffer { offer: RtcOffer { t: RtcOfferType::Offer, sdp: String::new() }, offer_id: OfferId(oid) });
    let mut req = bare_request(h, pid);
    req.offers = Some(offers);
    let stopped = req.event == Some(AnnounceEvent::Stopped);
    let c2: u8 = kani::any();
    let k2: u32 = kani::any();
    let meta = InMessageMeta { out_message_consumer_id: ConsumerId(c2), connection_id: conn(k2), ip_version: IpVersion::V4, pending_scrape_id: None };
    m.handle_announce_request(&config, &mut rng, &mut out, aquatic_common::ServerStartInstant::new(), meta, req);
    let want = if stopped || max_offers == 0 { 0 } else { 1 };
    assert!(out.len() == want + 1, "forwarded offers != min(offers, max_offers, other peers) (+ the announce reply)");
    match &out[want] {
        (om, OutMessage::AnnounceResponse(_)) => assert!(om.out_message_consumer_id.0 == c2 && om.connection_id == conn(k2), "announce reply addressed to the wrong connection"),
        _ => assert!(false, "last message must be the announce reply"),
    }
    let t = m.torrents.get(&InfoHash(h)).unwrap();
    if want == 1 {
        match &out[0] {
            (om, OutMessage::OfferOutMessage(o)) => {
                assert!(om.out_message_consumer_id.0 == ents[0].consumer && om.connection_id == conn(ents[0].conn), "offer must go to the receiving peer's own connection");
                assert!(o.peer_id.0 == pid && o.offer_id.0 == oid && o.info_hash.0 == h, "offer must carry the sender's peer id, its offer id and the info hash");
            }
            _ => assert!(false, "offer slot holds another message kind"),
        }
        let sp = t.peers.get(&PeerId(pid)).unwrap();
        assert!(sp.expecting_answers.len() == 1, "exactly one expectation per forwarded offer");
        let (ea, vu) = sp.expecting_answers.get_index(0).unwrap();
        assert!(ea.from_peer_id.0 == ents[0].pid && ea.regarding_offer_id.0 == oid, "expectation must name the receiver and the offer id");
        assert!(deadline_is(vu, now + 60), "offer expectation deadline = clock + max_offer_age");
    } else if !stopped {
        let sp = t.peers.get(&PeerId(pid)).unwrap();
        assert!(sp.expecting_answers.len() == 0, "expectation recorded although nothing was forwarded");
    }
    kani::cover!(want == 1, "offer forwarded");
    kani::cover!(want == 0 && !stopped, "offer dropped by max_offers 0");
    std::mem::forget(out);
    std::mem::forget(m);
    std::mem::forget(config);
}

// ------------------------------------------------------------------ lean variants (quick tier)
//
// Same relations as above with *concrete identifiers* (info hash, peer ids, offer ids are fixed
// distinct constants; which of them a request uses is still the solver's choice). Identifier
// values never enter any decision except through equality, so this loses the "arbitrary id
// bytes" quantification only; owners, events, left, clock, ages, deadlines stay symbolic. The
// 20-byte symbolic comparisons are what make the general harnesses take 10-15 minutes and 40 GB.

const H0: [u8; 20] = [7; 20];
const P_STORED: [u8; 20] = [1; 20];
const P_OTHER: [u8; 20] = [2; 20];
const O1: [u8; 20] = [5; 20];
const O2: [u8; 20] = [6; 20];

fn lean_stored() -> [WEnt; 1] {
    let mut e = any_went();
    e.pid = P_STORED;
    e.exp_from = if kani::any() { P_OTHER } else { P_STORED };
    e.exp_offer = if kani::any() { O1 } else { O2 };
    [e]
}

/// C08 lean: one stored peer; the request uses either the stored peer id or a fresh one.
pub fn c08_announce_lean(same_pid: bool) {
    let ents = lean_stored();
    let mut m = mk_map(H0, &ents);
    let now: u32 = kani::any();
    let age: u32 = kani::any();
    kani::assume(now as u64 + age as u64 <= u32::MAX as u64);
    aquatic_common::verif_shims::set_mock_clock(Some(now));
    let config = mk_config(2, 4, age, 60, AccessListMode::Off);
    let mut rng = any_rng();
    let mut out: Vec<(OutMessageMeta, OutMessage)> = Vec::with_capacity(2);
    // case split at harness level (two solver queries instead of one twice as large)
    let pid = if same_pid { P_STORED } else { P_OTHER };
    let req = bare_request(H0, pid);
    let stopped = req.event == Some(AnnounceEvent::Stopped);
    let seeder = req.bytes_left == Some(0);
    let c2: u8 = kani::any();
    let k2: u32 = kani::any();
    let meta = InMessageMeta { out_message_consumer_id: ConsumerId(c2), connection_id: conn(k2), ip_version: IpVersion::V4, pending_scrape_id: None };
    m.handle_announce_request(&config, &mut rng, &mut out, aquatic_common::ServerStartInstant::new(), meta, req);
    let e = ents[0];
    let foreign = same_pid && (e.consumer, e.conn) != (c2, k2);
    let t = m.torrents.get(&InfoHash(H0)).unwrap();
    let stored_after = t.peers.get(&PeerId(P_STORED));
    if foreign {
        assert!(out.len() == 0, "announce with a peer id owned by another connection must get no reply");
        match stored_after {
            Some(p) => assert!(t.peers.len() == 1 && p.seeder == e.seeder && p.consumer_id.0 == e.consumer && p.connection_id == conn(e.conn) && deadline_is(&p.valid_until, e.deadline), "entry owned by another connection was modified"),
            None => assert!(false, "entry owned by another connection was removed"),
        }
        assert!(t.num_seeders == if e.seeder { 1 } else { 0 }, "cached seeder count inconsistent");
    } else {
        let others = if same_pid { 0 } else { 1 };
        let other_seeders = if !same_pid && e.seeder { 1 } else { 0 };
        let want_len = if stopped { others } else { others + 1 };
        let want_seeders = other_seeders + if !stopped && seeder { 1 } else { 0 };
        assert!(t.peers.len() == want_len, "stored peer count != reference");
        assert!(t.num_seeders == want_seeders, "cached seeder count != reference");
        match t.peers.get(&PeerId(pid)) {
            Some(p) => {
                assert!(!stopped, "stopped peer still stored");
                assert!(p.seeder == seeder, "left == 0 <=> seeder violated");
                assert!(deadline_is(&p.valid_until, now + age), "announce must set deadline = now + max_peer_age");
                if same_pid {
                    assert!(p.consumer_id.0 == e.consumer && p.connection_id == conn(e.conn), "owner changed by re-announce");
                } else {
                    assert!(p.consumer_id.0 == c2 && p.connection_id == conn(k2), "new entry must be owned by the announcing connection");
                }
            }
            None => assert!(stopped, "announcing peer not stored"),
        }
        if !same_pid {
            match stored_after {
                Some(p) => assert!(p.seeder == e.seeder && p.consumer_id.0 == e.consumer && p.connection_id == conn(e.conn) && deadline_is(&p.valid_until, e.deadline) && p.expecting_answers.len() == if e.has_exp { 1 } else { 0 }, "another peer's entry changed by announce"),
                None => assert!(false, "another peer's entry lost by announce"),
            }
        }
        assert!(out.len() == 1, "announce must get exactly one reply");
        let (om, msg) = &out[0];
        assert!(om.out_message_consumer_id.0 == c2 && om.connection_id == conn(k2), "reply addressed to the wrong connection");
        match msg {
            OutMessage::AnnounceResponse(r) => {
                assert!(r.complete == want_seeders, "complete != stored seeders (announcer included)");
                assert!(r.incomplete == want_len - want_seeders, "incomplete != stored leechers (announcer included)");
            }
            _ => assert!(false, "announce answered with another message kind"),
        }
    }
    kani::cover!(foreign || !same_pid, "foreign peer id");
    kani::cover!((same_pid && !foreign && !stopped) || !same_pid, "owner re-announces");
    kani::cover!((same_pid && !foreign && stopped) || !same_pid, "owner stops");
    kani::cover!((!same_pid && !stopped) || same_pid, "new peer");
    std::mem::forget(out);
    std::mem::forget(m);
    std::mem::forget(config);
}

/// C09 lean: answer from a fresh peer P_OTHER to the stored peer, offer id O1 or O2.
pub fn c09_answer_lean() {
    let ents = lean_stored();
    let mut m = mk_map(H0, &ents);
    let now: u32 = kani::any();
    kani::assume(now < u32::MAX - 1000);
    aquatic_common::verif_shims::set_mock_clock(Some(now));
    let config = mk_config(2, 4, 100, 60, AccessListMode::Off);
    let mut rng = any_rng();
    let mut out: Vec<(OutMessageMeta, OutMessage)> = Vec::with_capacity(2);
    let to_stored: bool = kani::any();
    let to = if to_stored { P_STORED } else { [3; 20] };
    let oid = if kani::any() { O1 } else { O2 };
    let mut req = bare_request(H0, P_OTHER);
    kani::assume(req.event != Some(AnnounceEvent::Stopped));
    req.answer = Some(RtcAnswer { t: RtcAnswerType::Answer, sdp: String::new() });
    req.answer_to_peer_id = Some(PeerId(to));
    req.answer_offer_id = Some(OfferId(oid));
    let c2: u8 = kani::any();
    let k2: u32 = kani::any();
    let meta = InMessageMeta { out_message_consumer_id: ConsumerId(c2), connection_id: conn(k2), ip_version: IpVersion::V4, pending_scrape_id: None };
    m.handle_announce_request(&config, &mut rng, &mut out, aquatic_common::ServerStartInstant::new(), meta, req);
    let e = ents[0];
    let expected = to_stored && e.has_exp && e.exp_from == P_OTHER && e.exp_offer == oid;
    let t = m.torrents.get(&InfoHash(H0)).unwrap();
    if expected {
        assert!(out.len() == 2, "answer + announce reply expected");
        match &out[0] {
            (om, OutMessage::AnswerOutMessage(a)) => {
                assert!(om.out_message_consumer_id.0 == e.consumer && om.connection_id == conn(e.conn), "answer must go to the offering peer's connection only");
                assert!(a.peer_id.0 == P_OTHER && a.offer_id.0 == oid && a.info_hash.0 == H0, "answer payload");
            }
            _ => assert!(false, "expected a forwarded answer"),
        }
        assert!(t.peers.get(&PeerId(P_STORED)).unwrap().expecting_answers.len() == 0, "answered offer still pending (could be answered twice)");
    } else if to_stored {
        assert!(out.len() == 2, "error + announce reply expected");
        match &out[0] {
            (om, OutMessage::ErrorResponse(_)) => assert!(om.out_message_consumer_id.0 == c2 && om.connection_id == conn(k2), "error must go back to the answering connection"),
            (_, OutMessage::AnswerOutMessage(_)) => assert!(false, "answer forwarded without a matching pending offer"),
            _ => assert!(false, "unexpected message"),
        }
        assert!(t.peers.get(&PeerId(P_STORED)).unwrap().expecting_answers.len() == if e.has_exp { 1 } else { 0 }, "unrelated pending offer consumed by a non-matching answer");
    } else {
        assert!(out.len() == 1, "answer to an absent peer must produce nothing but the announce reply");
    }
    match &out[out.len() - 1] {
        (_, OutMessage::AnnounceResponse(_)) => {}
        _ => assert!(false, "last message must be the announce reply"),
    }
    kani::cover!(expected, "answer forwarded");
    kani::cover!(!expected && to_stored, "answer rejected with error");
    kani::cover!(!to_stored, "answer to absent peer");
    std::mem::forget(out);
    std::mem::forget(m);
    std::mem::forget(config);
}

/// C09 lean: one offer (id O1) from fresh P_OTHER with the stored peer as only receiver.
pub fn c09_offer_lean() {
    let ents = lean_stored();
    let mut m = mk_map(H0, &ents);
    let now: u32 = kani::any();
    kani::assume(now < u32::MAX - 1000);
    aquatic_common::verif_shims::set_mock_clock(Some(now));
    let max_offers: usize = kani::any();
    kani::assume(max_offers <= 2);
    let config = mk_config(max_offers, 4, 100, 60, AccessListMode::Off);
    let mut rng = any_rng();
    let mut out: Vec<(OutMessageMeta, OutMessage)> = Vec::with_capacity(2);
    let mut offers = Vec::with_capacity(1);
    offers.push(AnnounceRequestOffer { offer: RtcOffer { t: RtcOfferType::Offer, sdp: String::new() }, offer_id: OfferId(O1) });
    let mut req = bare_request(H0, P_OTHER);
    req.offers = Some(offers);
    let stopped = req.event == Some(AnnounceEvent::Stopped);
    let c2: u8 = kani::any();
    let k2: u32 = kani::any();
    let meta = InMessageMeta { out_message_consumer_id: ConsumerId(c2), connection_id: conn(k2), ip_version: IpVersion::V4, pending_scrape_id: None };
    m.handle_announce_request(&config, &mut rng, &mut out, aquatic_common::ServerStartInstant::new(), meta, req);
    let e = ents[0];
    let want = if stopped || max_offers == 0 { 0 } else { 1 };
    assert!(out.len() == want + 1, "forwarded offers != min(offers, max_offers, other peers) (+ the announce reply)");
    match &out[want] {
        (om, OutMessage::AnnounceResponse(_)) => assert!(om.out_message_consumer_id.0 == c2 && om.connection_id == conn(k2), "announce reply addressed to the wrong connection"),
        _ => assert!(false, "last message must be the announce reply"),
    }
    let t = m.torrents.get(&InfoHash(H0)).unwrap();
    if want == 1 {
        match &out[0] {
            (om, OutMessage::OfferOutMessage(o)) => {
                assert!(om.out_message_consumer_id.0 == e.consumer && om.connection_id == conn(e.conn), "offer must go to the receiving peer's own connection");
                assert!(o.peer_id.0 == P_OTHER && o.offer_id.0 == O1 && o.info_hash.0 == H0, "offer must carry the sender's peer id, its offer id and the info hash");
            }
            _ => assert!(false, "offer slot holds another message kind"),
        }
        let sp = t.peers.get(&PeerId(P_OTHER)).unwrap();
        assert!(sp.expecting_answers.len() == 1, "exactly one expectation per forwarded offer");
        let (ea, vu) = sp.expecting_answers.get_index(0).unwrap();
        assert!(ea.from_peer_id.0 == P_STORED && ea.regarding_offer_id.0 == O1, "expectation must name the receiver and the offer id");
        assert!(deadline_is(vu, now + 60), "offer expectation deadline = clock + max_offer_age");
    } else if !stopped {
        assert!(t.peers.get(&PeerId(P_OTHER)).unwrap().expecting_answers.len() == 0, "expectation recorded although nothing was forwarded");
    }
    kani::cover!(want == 1, "offer forwarded");
    kani::cover!(want == 0 && !stopped, "offer dropped by max_offers 0");
    std::mem::forget(out);
    std::mem::forget(m);
    std::mem::forget(config);
}
