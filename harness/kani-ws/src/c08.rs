//! C08 / C09 / C10 (WebTorrent storage): proof wrappers; bodies are mounted inside the real
//! storage.rs.
use crate::workers::swarm::storage::verif_harness as h;

macro_rules! p {
    ($name:ident, $unw:literal, $call:expr) => {
        #[kani::proof]
        #[kani::unwind($unw)]
        fn $name() {
            $call;
        }
    };
}
p!(c08_announce_n0, 4, h::c08_announce_step::<0, 1>());
p!(c08_announce_n1, 4, h::c08_announce_step::<1, 2>());
p!(c08_announce_n2, 5, h::c08_announce_step::<2, 3>());
p!(c08_announce_n3, 6, h::c08_announce_step::<3, 4>());
p!(c08_scrape_n1_k1, 4, h::c08_scrape::<1, 1>());
p!(c08_scrape_n2_k2, 5, h::c08_scrape::<2, 2>());
p!(c08_clean_n0, 4, h::c08_clean_step::<0, 1>());
p!(c08_clean_n1, 4, h::c08_clean_step::<1, 2>());
p!(c08_clean_n2, 5, h::c08_clean_step::<2, 3>());
p!(c08_clean_n3, 6, h::c08_clean_step::<3, 4>());
p!(c08_close_n2, 5, h::c08_close_step::<2, 3>());
p!(c09_offers_n0_k1, 4, h::c09_offers_step::<0, 1, 1>());
p!(c09_offers_n1_k2, 5, h::c09_offers_step::<1, 2, 2>());
p!(c09_offers_n2_k2, 6, h::c09_offers_step::<2, 3, 2>());
p!(c09_offers_n3_k2, 7, h::c09_offers_step::<3, 4, 2>());
p!(c09_answer_n1, 4, h::c09_answer_step::<1, 2>());
p!(c09_answer_n2, 5, h::c09_answer_step::<2, 3>());

p!(probe_announce_base_1, 4, h::probe_announce_base::<1>());
p!(probe_insert_base_1, 4, h::probe_insert_base::<1>());

#[cfg(verif_pb_c08)]
include!(env!("VERIF_PLAYBACK_FILE"));
