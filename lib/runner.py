"""Runs Kani (CBMC) and z3 queries registered in lib/registry.py, parses verdicts, replays
counterexamples natively, writes evidence."""
import concurrent.futures as cf
import hashlib
import json
import os
import random
import re
import resource
import shutil
import subprocess
import sys
import time

from . import registry

VERIF = os.path.dirname(os.path.dirname(os.path.abspath(__file__)))
# overridable so that seeded-change runs (mut-iso.sh: private mount namespace with a scratch worktree bound over /repo)
# do not disturb the build output, logs and evidence of the real checks
TARGETS = os.environ.get("VERIF_TARGETS") or os.path.join(VERIF, ".targets")
LOGS = os.environ.get("VERIF_LOGS") or os.path.join(VERIF, "logs")
REPLAYS = os.environ.get("VERIF_REPLAYS") or os.path.join(VERIF, "replays")
EVIDENCE = os.environ.get("VERIF_EVIDENCE") or os.path.join(VERIF, "evidence")
KNOWN = os.path.join(VERIF, "known_findings.json")

BASE_ENV = dict(os.environ)
BASE_ENV.update({
    "CARGO_NET_OFFLINE": "true",
    "CARGO_TERM_COLOR": "never",
})
# never let an outer RUSTUP_TOOLCHAIN leak into kani's pinned toolchain
BASE_ENV.pop("RUSTUP_TOOLCHAIN", None)


def _limit(mem_gb):
    def f():
        lim = int(mem_gb * (1 << 30))
        resource.setrlimit(resource.RLIMIT_AS, (lim, lim))
        os.setsid()
    return f


def crate_env(crate):
    env = dict(BASE_ENV)
    c = registry.CRATES[crate]
    if c.get("rustflags"):
        env["RUSTFLAGS"] = c["rustflags"]
    return env


def crate_dir(crate):
    return os.path.join(VERIF, "harness", registry.CRATES.get(crate, {}).get("dir", crate))


def target_dir(crate, suffix=""):
    return os.path.join(TARGETS, crate + suffix)


def sync_lock(crate):
    """Harness crates resolve dependencies with /repo's own Cargo.lock (copied each run)."""
    src = "/repo/Cargo.lock"
    dst = os.path.join(crate_dir(crate), "Cargo.lock")
    extra = os.path.join(crate_dir(crate), "Cargo.lock.extra")
    try:
        data = open(src).read()
        if os.path.exists(extra):
            data += open(extra).read()
        if not os.path.exists(dst) or open(dst).read() != data:
            open(dst, "w").write(data)
    except OSError:
        pass


def build_crate(crate, log):
    """cargo kani --only-codegen: compile /repo's current sources + harnesses to goto."""
    sync_lock(crate)
    cmd = ["cargo", "kani", "--only-codegen", "--target-dir", target_dir(crate)] + registry.CRATES[crate].get("kani_args", [])
    t0 = time.time()
    with open(log, "w") as f:
        p = subprocess.run(cmd, cwd=crate_dir(crate), env=crate_env(crate), stdout=f, stderr=subprocess.STDOUT)
    return p.returncode == 0, time.time() - t0


RE_FAILED = re.compile(r"\*\* (\d+) of (\d+) failed")
RE_COVER = re.compile(r"\*\* (\d+) of (\d+) cover properties satisfied")
RE_TIME = re.compile(r"Verification Time: ([0-9.]+)s")


def parse_log(text):
    r = {"status": "inconclusive", "reason": "", "checks": 0, "failed": 0, "covers": 0, "covers_sat": 0,
         "solver_s": 0.0, "failed_checks": []}
    m = RE_FAILED.search(text)
    if m:
        r["failed"], r["checks"] = int(m.group(1)), int(m.group(2))
    m = RE_COVER.search(text)
    if m:
        r["covers_sat"], r["covers"] = int(m.group(1)), int(m.group(2))
    m = RE_TIME.search(text)
    if m:
        r["solver_s"] = float(m.group(1))
    # size of the propositional problem handed to the SAT solver (CBMC: "N variables, M clauses")
    vc = [(int(a), int(b)) for a, b in re.findall(r"(\d+) variables, (\d+) clauses", text)]
    if vc:
        r["sat_vars"], r["sat_clauses"] = max(vc)
    # failed checks: "Failed Checks: <msg>\n File: "<f>", line N, in <fn>"
    for fm in re.finditer(r"Failed Checks: (.*)\n(?: File: \"([^\"]*)\", line (\d+), in (\S+))?", text):
        r["failed_checks"].append({"msg": fm.group(1).strip(), "file": fm.group(2) or "", "line": int(fm.group(3) or 0),
                                   "func": fm.group(4) or ""})
    # regular output: per-check blocks
    for cm in re.finditer(r"Check \d+: (\S+)\n\s*- Status: (\w+)\n\s*- Description: \"(.*)\"\n\s*- Location: (.*)\n", text):
        if cm.group(2) in ("UNSATISFIED", "UNREACHABLE") and ".cover." in cm.group(1):
            r.setdefault("covers_unsat", []).append(cm.group(3))
    if "VERIFICATION:- SUCCESSFUL" in text:
        if r["covers"] and r["covers_sat"] != r["covers"]:
            r["status"] = "inconclusive"
            r["reason"] = "vacuity guard: %d of %d reachability witnesses unsatisfied %s" % (r["covers"] - r["covers_sat"], r["covers"], r.get("covers_unsat", []))
        else:
            r["status"] = "success"
    elif "VERIFICATION:- FAILED" in text:
        unw = [c for c in r["failed_checks"] if "unwinding assertion" in c["msg"]]
        real = [c for c in r["failed_checks"] if "unwinding assertion" not in c["msg"]]
        if "Status: ERROR" in text or "CBMC failed" in text or "out of memory" in text.lower() or not r["failed_checks"]:
            r["status"] = "inconclusive"
            r["reason"] = "solver error / out of memory"
        elif unw and not real:
            r["status"] = "inconclusive"
            r["reason"] = "unwinding bound too small: " + unw[0]["func"]
        else:
            r["status"] = "failed"
            r["failed_checks"] = real
    else:
        r["reason"] = "no verdict in output (crash, ICE, or killed)"
    return r


import threading
_MEM_LOCK = threading.Condition()
_MEM_FREE = [float(os.environ.get("VERIF_TOTAL_GB", "56"))]


def run_harness(h, tier_timeout, mem_gb):
    need = min(h.get("mem_gb", mem_gb), float(os.environ.get("VERIF_TOTAL_GB", "56")))
    with _MEM_LOCK:
        while _MEM_FREE[0] < need:
            _MEM_LOCK.wait()
        _MEM_FREE[0] -= need
    try:
        return _run_harness(h, tier_timeout, mem_gb)
    finally:
        with _MEM_LOCK:
            _MEM_FREE[0] += need
            _MEM_LOCK.notify_all()


def _run_harness(h, tier_timeout, mem_gb):
    crate = h["crate"]
    name = h["name"]
    log = os.path.join(LOGS, "%s.%s.log" % (crate, name.replace("::", ".")))
    cmd = ["cargo", "kani", "--target-dir", target_dir(crate), "--harness", name, "--exact"] + registry.CRATES[crate].get("kani_args", []) + h.get("kani_args", [])
    cb = registry.CRATES[crate].get("cbmc_args", []) + h.get("cbmc_args", [])
    if cb:
        cmd += ["--cbmc-args"] + cb
    t0 = time.time()
    timeout = h.get("timeout", tier_timeout)
    status = None
    with open(log, "w") as f:
        p = subprocess.Popen(cmd, cwd=crate_dir(crate), env=crate_env(crate), stdout=f, stderr=subprocess.STDOUT,
                             preexec_fn=_limit(h.get("mem_gb", mem_gb)))
        try:
            p.wait(timeout=timeout)
        except subprocess.TimeoutExpired:
            try:
                os.killpg(p.pid, 9)
            except OSError:
                pass
            p.wait()
            status = "timeout"
    wall = time.time() - t0
    text = open(log, errors="replace").read()
    r = parse_log(text)
    if status == "timeout":
        r["status"] = "inconclusive"
        r["reason"] = "timeout after %ds" % timeout
    r["wall_s"] = round(wall, 2)
    r["log"] = log
    r["harness"] = name
    r["crate"] = crate
    return r


def load_known():
    try:
        return json.load(open(KNOWN))
    except OSError:
        return {"findings": [], "fixed": []}


def finding_key(h, chk):
    """Identify a violation by harness + the role text of the failing assertion (not line numbers)."""
    return "%s|%s" % (h["name"].split("::")[-1], chk["msg"])


def match_known(prop, h, chk, known):
    key = finding_key(h, chk)
    for k in known.get("findings", []):
        if k.get("property") == prop and k.get("key") == key:
            return k
    return None


RE_PB = re.compile(r"/// Test generated for harness `([^`]*)`\s*\n///\s*\n/// Check for `([^`]*)`: \"([^\n]*)\"\s*\n(?:///[^\n]*\n)*\s*(#\[test\]\nfn (\w+)\(\) \{.*?\n\})", re.S)


def concrete_playback(h, mem_gb, timeout):
    """Ask Kani for the solver's assignment as a unit test (printed), return list of tests."""
    crate = h["crate"]
    cmd = ["cargo", "kani", "--target-dir", target_dir(crate), "--harness", h["name"], "--exact", "--output-format", "terse",
           "-Z", "concrete-playback", "--concrete-playback=print"] + registry.CRATES[crate].get("kani_args", []) + h.get("kani_args", [])
    cb = registry.CRATES[crate].get("cbmc_args", []) + h.get("cbmc_args", [])
    if cb:
        cmd += ["--cbmc-args"] + cb
    try:
        # no RLIMIT_AS here: kani-driver itself needs a large address space to turn CBMC's trace into
        # a playback test; the same instance was already solved within the memory limit
        p = subprocess.run(cmd, cwd=crate_dir(crate), env=crate_env(crate), capture_output=True, text=True,
                           timeout=timeout, preexec_fn=os.setsid)
    except subprocess.TimeoutExpired:
        return []
    out = p.stdout + p.stderr
    tests = []
    for m in RE_PB.finditer(out):
        tests.append({"harness": m.group(1), "kind": m.group(2), "msg": m.group(3).strip('"'), "code": m.group(4), "test": m.group(5)})
    return tests


def native_playback(h, test, expect_msg=None):
    """Run the harness body natively on the solver's values (cargo kani playback = cargo test with
    kani::any() reading the recorded bytes). Returns (reproduced, output_tail).
    reproduced is True only if the native run panics with the message of the failed check (or, for
    checks without a message of their own - overflow, index, unwrap - with some panic that is not
    the playback running out of recorded values, which means the native path diverged)."""
    crate = h["crate"]
    mod = h["name"].split("::")[-2] if "::" in h["name"] else "lib"
    os.makedirs(REPLAYS, exist_ok=True)
    pbfile = os.path.join(TARGETS, "pb-%s-%s.rs" % (crate, test["test"]))
    open(pbfile, "w").write(test["code"] + "\n")
    env = crate_env(crate)
    env["VERIF_PLAYBACK_FILE"] = pbfile
    env["RUSTFLAGS"] = (env.get("RUSTFLAGS", "") + " --cfg verif_playback --cfg verif_pb_" + mod).strip()
    env["CARGO_TARGET_DIR"] = target_dir(crate, "-pb")
    env["RUST_BACKTRACE"] = "0"
    cmd = ["cargo", "kani", "playback", "-Z", "concrete-playback"] + registry.CRATES[crate].get("kani_args", []) + ["--", test["test"]]
    try:
        p = subprocess.run(cmd, cwd=crate_dir(crate), env=env, capture_output=True, text=True, timeout=900)
    except subprocess.TimeoutExpired:
        return None, "playback timeout"
    out = p.stdout + p.stderr
    tail = "\n".join(l for l in out.splitlines() if not l.startswith("warning") and not l.lstrip().startswith(("|", "=", "-->")) and l.strip())[-2500:]
    ran = re.search(r"running (\d+) test", out)
    res = re.search(r"test result: (\w+)\. (\d+) passed; (\d+) failed", out)
    if not ran or not res or (int(res.group(2)) + int(res.group(3))) == 0:
        return None, tail
    if int(res.group(3)) == 0:
        return False, tail
    if "Not enough det vals" in out:
        return False, tail + "\n[native path diverged from the solver's path: recorded values exhausted]"
    if expect_msg:
        m = expect_msg.strip().strip('"')
        if m and m in out:
            return True, tail
        # message-less checks (arithmetic overflow, index out of bounds ...)
        generic = ("overflow", "out of bounds", "unwrap", "divide", "slice", "index")
        if any(g in expect_msg for g in generic) and "panicked" in out:
            return True, tail
        return False, tail + "\n[native run panicked, but not with the failed check's message]"
    return True, tail


def directed_native_test(ddir, tname):
    """cargo test of a hand-written native reproduction (real containers, no Kani). True = it fails,
    i.e. the defect is present in /repo's current tree."""
    d = os.path.join(VERIF, ddir)
    env = dict(BASE_ENV)
    env["CARGO_TARGET_DIR"] = os.path.join(TARGETS, ddir)
    try:
        open(os.path.join(d, "Cargo.lock"), "w").write(open("/repo/Cargo.lock").read())
    except OSError:
        pass
    try:
        p = subprocess.run(["cargo", "test", "--offline", "--", tname], cwd=d, env=env, capture_output=True, text=True, timeout=1200)
    except subprocess.TimeoutExpired:
        return None, "directed test timeout"
    out = p.stdout + p.stderr
    res = re.search(r"test result: (\w+)\. (\d+) passed; (\d+) failed", out)
    if not res or int(res.group(2)) + int(res.group(3)) == 0:
        return None, out[-1500:]
    return int(res.group(3)) > 0, out[-1500:]


def handle_failure(prop, h, r, known, mem_gb):
    """Returns list of dicts: {kind: known|violation|noreplay, ...}"""
    results = []
    unknown = []
    for chk in r["failed_checks"]:
        k = match_known(prop, h, chk, known)
        if k:
            results.append({"kind": "known", "key": k["key"], "what": k.get("what", ""), "check": chk})
        else:
            unknown.append(chk)
    if not unknown:
        return results
    tests = concrete_playback(h, mem_gb, h.get("timeout", 900) * 2)
    os.makedirs(REPLAYS, exist_ok=True)
    for chk in unknown[:3]:
        cand = [t for t in tests if t["kind"] != "cover" and (t["msg"] == chk["msg"] or chk["msg"] in t["msg"] or t["msg"] in chk["msg"])]
        if not cand:
            cand = [t for t in tests if t["kind"] != "cover"]
        replay_path = os.path.join(REPLAYS, "%s-%s-%s.json" % (prop, h["name"].split("::")[-1], hashlib.sha1(chk["msg"].encode()).hexdigest()[:8]))
        reproduced, tail = (None, "no concrete playback produced")
        used = None
        for t in cand[:2]:
            reproduced, tail = native_playback(h, t, chk["msg"])
            used = t
            if reproduced:
                break
        if not reproduced:
            # directed native reproduction registered for this assertion (used where the instance
            # is too large for Kani's playback generator)
            for sub, (ddir, tname) in h.get("native_tests", {}).items():
                if sub in chk["msg"]:
                    r2, tail2 = directed_native_test(ddir, tname)
                    if r2:
                        reproduced, tail = True, tail2
                        used = {"code": "directed native test %s::%s" % (ddir, tname), "test": tname}
        rec = {"property": prop, "crate": h["crate"], "harness": h["name"], "failed_check": chk, "key": finding_key(h, chk),
               "playback_test": used["code"] if used else None, "playback_test_name": used["test"] if used else None,
               "native_reproduced": reproduced, "native_output_tail": tail, "kani_log": r["log"]}
        json.dump(rec, open(replay_path, "w"), indent=1)
        if reproduced:
            results.append({"kind": "violation", "check": chk, "replay": replay_path, "key": rec["key"]})
        else:
            results.append({"kind": "noreplay", "check": chk, "replay": replay_path, "key": rec["key"], "tail": tail})
    return results


def replay_file(prop, path):
    rec = json.load(open(path))
    h = None
    for hh in registry.all_harnesses(rec["property"]):
        if hh["name"] == rec["harness"]:
            h = hh
    if h is None or not rec.get("playback_test"):
        print("cannot replay: harness or playback test missing")
        return 2
    os.makedirs(TARGETS, exist_ok=True)
    sync_lock(h["crate"])
    t = {"code": rec["playback_test"], "test": rec["playback_test_name"]}
    reproduced, tail = native_playback(h, t, rec.get("failed_check", {}).get("msg"))
    print(tail)
    if reproduced:
        print("VIOLATION property=%s replay=%s" % (rec["property"], path))
        return 1
    if reproduced is None:
        return 2
    print("counterexample does not reproduce on the current tree")
    return 0


def run_property(prop, tier, seed, only=None, jobs=0, write_evidence=True):
    t_start = time.time()
    os.makedirs(TARGETS, exist_ok=True)
    os.makedirs(LOGS, exist_ok=True)
    os.makedirs(EVIDENCE, exist_ok=True)
    P = registry.PROPS.get(prop)
    if P is None:
        print("property %s is not claimed (see MANIFEST.json not_applicable)" % prop)
        return 2
    hs = [h for h in registry.all_harnesses(prop) if tier == "thorough" or h.get("tier", "quick") == "quick"]
    if only:
        hs = [h for h in hs if only in h["name"]]
    rnd = random.Random(seed)
    rnd.shuffle(hs)  # the seed only permutes scheduling; verdicts do not depend on it
    tier_timeout = 1200 if tier == "quick" else 3600
    mem_gb = float(os.environ.get("VERIF_MEM_GB", "14"))
    jobs = jobs or int(os.environ.get("VERIF_JOBS", "0")) or (8 if tier == "quick" else 6)
    known = load_known()

    inconclusive = []
    results = []
    # 1. build (encoding regenerated from /repo's current sources)
    kani_hs = [h for h in hs if h.get("engine", "kani") == "kani"]
    other_hs = [h for h in hs if h.get("engine", "kani") != "kani"]
    build_s = {}
    for crate in sorted(set(h["crate"] for h in kani_hs)):
        blog = os.path.join(LOGS, "build.%s.log" % crate)
        ok, secs = build_crate(crate, blog)
        build_s[crate] = round(secs, 1)
        if not ok:
            inconclusive.append("build of %s failed (see %s)" % (crate, blog))
            tail = open(blog, errors="replace").read()[-3000:]
            print(tail)
    if not inconclusive:
        # longest first helps packing; seed shuffles ties
        kani_hs.sort(key=lambda h: -h.get("cost", 10))
        with cf.ThreadPoolExecutor(max_workers=jobs) as ex:
            futs = {ex.submit(run_harness, h, tier_timeout, mem_gb): h for h in kani_hs}
            for fut in cf.as_completed(futs):
                h = futs[fut]
                r = fut.result()
                results.append((h, r))
                print("[%s] %-55s %-12s checks=%d covers=%d/%d solver=%.1fs wall=%.1fs %s" % (
                    prop, h["name"], r["status"], r["checks"], r["covers_sat"], r["covers"], r["solver_s"], r["wall_s"], r["reason"]))
                sys.stdout.flush()
        for h in other_hs:
            from . import smt
            r = smt.run(h, known, prop)
            results.append((h, r))
            print("[%s] %-55s %-12s queries=%d solver=%.1fs %s %s" % (prop, h["name"], r["status"], r["checks"], r["solver_s"], r["reason"], r.get("results", "")))

    violations = []
    known_hits = []
    for h, r in results:
        if r["status"] == "inconclusive":
            inconclusive.append("%s: %s" % (h["name"], r["reason"]))
        elif r["status"] == "failed":
            if r.get("handled"):
                outs = r["handled"]
            else:
                outs = handle_failure(prop, h, r, known, mem_gb)
            for o in outs:
                if o["kind"] == "known":
                    known_hits.append(o)
                elif o["kind"] == "violation":
                    violations.append(o)
                else:
                    inconclusive.append("%s: counterexample for '%s' did not replay natively (%s)" % (h["name"], o["check"]["msg"], o["replay"]))

    seen = set()
    for o in known_hits:
        if o["key"] in seen:
            continue
        seen.add(o["key"])
        print("KNOWN-FINDING: property=%s %s" % (prop, o["what"] or o["key"]))
    for o in violations:
        print("VIOLATION property=%s replay=%s" % (prop, o["replay"]))
        print("  failed check: %s (%s:%s in %s)" % (o["check"]["msg"], o["check"].get("file", ""), o["check"].get("line", ""), o["check"].get("func", "")))
    for m in inconclusive:
        print("INCONCLUSIVE: " + m)

    wall = time.time() - t_start
    if write_evidence and not only:
        write_ev(prop, P, tier, seed, results, build_s, violations, known_hits, inconclusive, wall)
    if violations:
        return 1
    if inconclusive:
        return 2
    return 0


def write_ev(prop, P, tier, seed, results, build_s, violations, known_hits, inconclusive, wall):
    discharged = [(h, r) for h, r in results if r["status"] == "success"]
    obligations = sum(r["checks"] for _, r in results)
    ok_checks = sum(r["checks"] - r["failed"] for _, r in results if r["status"] in ("success", "failed"))
    nontrivial = [(h, r) for h, r in discharged if r["checks"] > 0 and (r["covers"] == 0 or r["covers_sat"] == r["covers"])]
    # a query whose only failures are listed known findings was decided by the solver(s) as well
    nontrivial += [(h, r) for h, r in results if r["status"] == "failed" and r.get("handled") and all(o["kind"] == "known" for o in r["handled"])]
    samples = []
    for h, r in results:
        samples.append({
            "query": h["name"], "engine": h.get("engine", "kani/cbmc/cadical"), "crate": h["crate"], "tier": h.get("tier", "quick"),
            "obligation": h.get("claim", ""), "bound": h.get("bound", ""), "functions": h.get("functions", []),
            "verdict": r["status"], "reason": r["reason"], "checks": r["checks"], "failed": r["failed"],
            "reachability_witnesses": "%d/%d" % (r["covers_sat"], r["covers"]), "solver_s": r["solver_s"], "wall_s": r["wall_s"],
            "sat_variables": r.get("sat_vars", 0), "sat_clauses": r.get("sat_clauses", 0),
            "failed_checks": r.get("failed_checks", [])[:5],
        })
    ev = {
        "property_id": prop,
        "tier": tier,
        "seed": seed,
        "level": P["level"],
        "coverage": {
            "evaluations": max(len(results), 0),
            "distinct_nontrivial": len(nontrivial),
            "rule": "one evaluation = one solver query (a Kani proof harness compiled from /repo's working tree and decided by "
                    "CBMC+CaDiCaL, or one generated SMT problem decided by z3 and cvc5); it counts as distinct and non-trivial when it has a different harness body, "
                    "ended SUCCESSFUL with unwinding assertions passed, contains >0 checked properties and every kani::cover! "
                    "reachability witness in it was SATISFIED (non-vacuous); a query whose counterexample is a listed known finding counts as decided",
            "samples": samples,
            "obligations": obligations,
            "discharged": ok_checks,
            "queries": len(results),
            "queries_discharged": len(discharged),
            "solver_s_total": round(sum(r["solver_s"] for _, r in results), 1),
            "build_s": build_s,
            "functions_encoded": P.get("functions", []),
            "bounds": P.get("bounds", ""),
            "outside_claim": P.get("outside", ""),
            "stubs_and_models": P.get("models", []),
            "exhaustive": False,
            "known_findings_reported": sorted(set(o["key"] for o in known_hits)),
            "inconclusive": inconclusive,
            "violations": [{"key": o["key"], "replay": o["replay"]} for o in violations],
        },
        "assumptions": P.get("assumptions", []),
        "wall_s": round(wall, 1),
        "violations": len(violations),
    }
    json.dump(ev, open(os.path.join(EVIDENCE, prop + ".json"), "w"), indent=1)
