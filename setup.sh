#!/bin/bash
# Offline setup: pre-build every harness crate's Kani goto binaries and the native replay crates
# from /repo's current tree. (Checks rebuild incrementally on every run.)
set -u
cd "$(dirname "$0")"
export CARGO_NET_OFFLINE=true
mkdir -p .targets logs evidence replays
python3 - <<'PY'
import sys, os, subprocess
sys.path.insert(0, os.getcwd())
from lib import runner, registry, smt
ok = True
for crate in registry.CRATES:
    good, secs = runner.build_crate(crate, os.path.join(runner.LOGS, "setup.%s.log" % crate))
    print("setup: %s %s in %.0fs" % (crate, "built" if good else "FAILED", secs))
    ok = ok and good
# native replay helpers
rep, tail = smt.native_replay("udp-mio-scrape", {"k": 1}, 8192)
print("setup: replay crate", "ok" if rep is not None else "FAILED " + str(tail)[-300:])
ok = ok and rep is not None
r, t = runner.directed_native_test("replay-ws", "c08_ownership_other_worker_same_slot")
print("setup: replay-ws", "ok" if r is not None else "FAILED " + str(t)[-300:])
ok = ok and r is not None
sys.exit(0 if ok else 1)
PY
