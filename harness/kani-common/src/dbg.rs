use aquatic_common::verif_shims::model::IndexMap;

#[derive(Clone, Copy, PartialEq, Eq, Debug)]
#[repr(C, packed)]
struct K6 {
    ip: [u8; 4],
    port: u16,
}
#[derive(Clone, Copy, Debug)]
struct V28 {
    id: [u8; 20],
    s: bool,
    d: u32,
}

#[kani::proof]
#[kani::unwind(6)]
fn dbg_model_simple() {
    let ks: [u32; 3] = kani::any();
    kani::assume(ks[0] != ks[1] && ks[0] != ks[2] && ks[1] != ks[2]);
    let mut m: IndexMap<u32, u8> = [(ks[0], 1u8), (ks[1], 2u8)].iter().copied().collect();
    assert!(m.len() == 2, "s len2");
    m.insert(ks[2], 3);
    assert!(m.len() == 3, "s len3");
    assert!(*m.get_index(2).unwrap().0 == ks[2], "s key2");
}

#[kani::proof]
#[kani::unwind(6)]
fn dbg_model_packed() {
    let a = K6 { ip: kani::any(), port: kani::any() };
    let b = K6 { ip: kani::any(), port: kani::any() };
    let c = K6 { ip: kani::any(), port: kani::any() };
    kani::assume(a != b && a != c && b != c);
    let v = V28 { id: kani::any(), s: kani::any(), d: kani::any() };
    let mut m: IndexMap<K6, V28> = [(a, v), (b, v)].iter().copied().collect();
    assert!(m.len() == 2, "p len2");
    m.insert(c, v);
    assert!(m.len() == 3, "p len3");
    assert!(*m.get_index(2).unwrap().0 == c, "p key2");
}

struct L {
    peers: IndexMap<K6, V28>,
    n: usize,
}
enum E {
    Small([u32; 19]),
    Large(L),
}

#[kani::proof]
#[kani::unwind(6)]
fn dbg_model_enum() {
    let a = K6 { ip: kani::any(), port: kani::any() };
    let b = K6 { ip: kani::any(), port: kani::any() };
    let c = K6 { ip: kani::any(), port: kani::any() };
    kani::assume(a != b && a != c && b != c);
    let v = V28 { id: kani::any(), s: kani::any(), d: kani::any() };
    let src = [(a, v), (b, v)];
    let peers: IndexMap<K6, V28> = src.iter().copied().collect();
    let l = L { peers, n: 0 };
    assert!(l.peers.len() == 2, "e len2");
    let mut e = E::Large(l);
    if let E::Large(l) = &mut e {
        l.n += 1;
        l.peers.insert(c, v);
        assert!(l.peers.len() == 3, "e len3");
        assert!(*l.peers.get_index(2).unwrap().0 == c, "e key2");
        assert!(*l.peers.get_index(0).unwrap().0 == a, "e key0");
    }
    std::mem::forget(e);
}

#[kani::proof]
#[kani::unwind(6)]
fn dbg_model_enum_replace() {
    let a = K6 { ip: kani::any(), port: kani::any() };
    let b = K6 { ip: kani::any(), port: kani::any() };
    let c = K6 { ip: kani::any(), port: kani::any() };
    kani::assume(a != b && a != c && b != c);
    let v = V28 { id: kani::any(), s: kani::any(), d: kani::any() };
    let src = [(a, v), (b, v)];
    let mut e = E::Small([0; 19]);
    let r = &mut e;
    match r {
        E::Small(_) => {
            let peers: IndexMap<K6, V28> = src.iter().copied().collect();
            *r = E::Large(L { peers, n: 0 });
        }
        E::Large(_) => {}
    }
    match r {
        E::Large(l) => {
            l.peers.insert(c, v);
            assert!(l.peers.len() == 3, "r len3");
            assert!(*l.peers.get_index(2).unwrap().0 == c, "r key2");
        }
        E::Small(_) => assert!(false, "r small"),
    }
    std::mem::forget(e);
}

#[kani::proof]
#[kani::unwind(6)]
fn dbg_model_enum_concrete() {
    let a = K6 { ip: kani::any(), port: kani::any() };
    let b = K6 { ip: kani::any(), port: kani::any() };
    let c = K6 { ip: kani::any(), port: kani::any() };
    let v = V28 { id: kani::any(), s: kani::any(), d: kani::any() };
    let mut peers: IndexMap<K6, V28> = IndexMap::default();
    peers.push_unchecked(a, v);
    peers.push_unchecked(b, v);
    let l = L { peers, n: 0 };
    let mut e = E::Large(l);
    if let E::Large(l) = &mut e {
        l.peers.push_unchecked(c, v);
        assert!(l.peers.len() == 3, "c len3");
        assert!(*l.peers.get_index(2).unwrap().0 == c, "c key2");
        assert!(*l.peers.get_index(0).unwrap().0 == a, "c key0");
    }
    std::mem::forget(e);
}

struct L2 {
    arr: [Option<(u16, u8)>; 4],
    len: usize,
}
enum E2 {
    A(u64),
    B(L2),
}
#[kani::proof]
#[kani::unwind(6)]
fn dbg_plain_enum() {
    let mut e = E2::B(L2 { arr: [None; 4], len: 0 });
    let k: u16 = kani::any();
    if let E2::B(l) = &mut e {
        let i: usize = kani::any();
        kani::assume(i < 2);
        l.len = i;
        l.arr[l.len] = Some((k, 1));
        l.len += 1;
        assert!(l.arr[i].is_some(), "plain some");
        assert!(l.arr[i].unwrap().0 == k, "plain key");
    }
}

use std::cell::UnsafeCell;
struct L3 {
    arr: UnsafeCell<[Option<(K6, V28)>; 4]>,
    len: usize,
}
enum E3 {
    A([u32; 19]),
    B(L3),
}
#[kani::proof]
#[kani::unwind(6)]
fn dbg_cell_enum() {
    let a = K6 { ip: kani::any(), port: kani::any() };
    let v = V28 { id: kani::any(), s: kani::any(), d: kani::any() };
    let mut l = L3 { arr: UnsafeCell::new([const { None }; 4]), len: 0 };
    l.arr.get_mut()[0] = Some((a, v));
    l.len = 1;
    let mut e = E3::B(l);
    if let E3::B(l) = &mut e {
        l.arr.get_mut()[l.len] = Some((a, v));
        l.len += 1;
        let s = unsafe { &*l.arr.get() };
        assert!(s[1].is_some(), "cell some1");
        assert!(s[0].is_some(), "cell some0");
    }
    std::mem::forget(e);
}

struct L4 {
    arr: [Option<(K6, V28)>; 4],
    len: usize,
}
enum E4 {
    A([u32; 19]),
    B(L4),
}
#[kani::proof]
#[kani::unwind(6)]
fn dbg_nocell_enum() {
    let a = K6 { ip: kani::any(), port: kani::any() };
    let v = V28 { id: kani::any(), s: kani::any(), d: kani::any() };
    let mut l = L4 { arr: [const { None }; 4], len: 0 };
    l.arr[0] = Some((a, v));
    l.len = 1;
    let mut e = E4::B(l);
    if let E4::B(l) = &mut e {
        l.arr[l.len] = Some((a, v));
        l.len += 1;
        assert!(l.arr[1].is_some(), "nocell some1");
        assert!(l.arr[0].is_some(), "nocell some0");
    }
    std::mem::forget(e);
}

struct L5 {
    arr: [u32; 4],
    len: usize,
}
enum E5 {
    A([u32; 19]),
    B(L5),
}
#[kani::proof]
#[kani::unwind(6)]
fn dbg_tagged_enum() {
    let k: u32 = kani::any();
    let mut l = L5 { arr: [0; 4], len: 0 };
    l.arr[0] = k;
    l.len = 1;
    let mut e = E5::B(l);
    if let E5::B(l) = &mut e {
        l.arr[l.len] = k;
        l.len += 1;
        assert!(l.arr[1] == k, "tagged 1");
        assert!(l.arr[0] == k, "tagged 0");
    }
    std::mem::forget(e);
}
struct L6 {
    arr: UnsafeCell<[u32; 4]>,
    len: usize,
}
#[kani::proof]
#[kani::unwind(6)]
fn dbg_cell_noenum() {
    let k: u32 = kani::any();
    let mut l = L6 { arr: UnsafeCell::new([0; 4]), len: 0 };
    l.arr.get_mut()[0] = k;
    l.len = 1;
    let r = &mut l;
    r.arr.get_mut()[r.len] = k;
    r.len += 1;
    let s = unsafe { &*r.arr.get() };
    assert!(s[1] == k, "cellnoenum 1");
}
enum E6 {
    A([u32; 19]),
    B(L6),
}
#[kani::proof]
#[kani::unwind(6)]
fn dbg_cell_enum_u32() {
    let k: u32 = kani::any();
    let mut l = L6 { arr: UnsafeCell::new([0; 4]), len: 0 };
    l.arr.get_mut()[0] = k;
    l.len = 1;
    let mut e = E6::B(l);
    if let E6::B(l) = &mut e {
        l.arr.get_mut()[l.len] = k;
        l.len += 1;
        let s = unsafe { &*l.arr.get() };
        assert!(s[1] == k, "cellenum 1");
        assert!(s[0] == k, "cellenum 0");
    }
    std::mem::forget(e);
}

#[derive(Clone, Copy)]
struct V2 {
    id: [u8; 20],
    d: u32,
}
macro_rules! cellcase {
    ($fn:ident, $L:ident, $E:ident, $elem:ty, $mk:expr) => {
        struct $L {
            arr: UnsafeCell<[Option<$elem>; 4]>,
            len: usize,
        }
        enum $E {
            A([u32; 19]),
            B($L),
        }
        #[kani::proof]
        #[kani::unwind(6)]
        fn $fn() {
            let x: $elem = $mk;
            let mut l = $L { arr: UnsafeCell::new([const { None }; 4]), len: 0 };
            l.arr.get_mut()[0] = Some(x);
            l.len = 1;
            let mut e = $E::B(l);
            if let $E::B(l) = &mut e {
                l.arr.get_mut()[l.len] = Some(x);
                l.len += 1;
                let s = unsafe { &*l.arr.get() };
                assert!(s[1].is_some(), "some1");
                assert!(s[0].is_some(), "some0");
            }
            std::mem::forget(e);
        }
    };
}
cellcase!(dbg_c_u32, LA, EA, u32, kani::any());
cellcase!(dbg_c_bool, LB, EB, (u32, bool), (kani::any(), kani::any()));
cellcase!(dbg_c_k6, LC, EC, K6, K6 { ip: kani::any(), port: kani::any() });
cellcase!(dbg_c_v2, LD, ED, V2, V2 { id: kani::any(), d: kani::any() });
cellcase!(dbg_c_v28, LE, EE, V28, V28 { id: kani::any(), s: kani::any(), d: kani::any() });

struct LW {
    arr: UnsafeCell<[Option<V28>; 4]>,
    len: usize,
}
enum EW {
    A([u32; 19]),
    B(LW),
}
fn wr(l: &mut LW, x: V28) {
    let i = l.len;
    let slot: *mut Option<V28> = &mut l.arr.get_mut()[i];
    unsafe { std::ptr::write(slot, Some(x)) };
    l.len += 1;
}
#[kani::proof]
#[kani::unwind(6)]
fn dbg_w_ptrwrite() {
    let x = V28 { id: kani::any(), s: kani::any(), d: kani::any() };
    let mut l = LW { arr: UnsafeCell::new([const { None }; 4]), len: 0 };
    wr(&mut l, x);
    let mut e = EW::B(l);
    if let EW::B(l) = &mut e {
        wr(l, x);
        let s = unsafe { &*l.arr.get() };
        assert!(s[1].is_some(), "some1");
        assert!(s[0].is_some(), "some0");
        assert!(s[1].unwrap().d == x.d, "d1");
    }
    std::mem::forget(e);
}
#[kani::proof]
#[kani::unwind(6)]
fn dbg_w_readback_only() {
    // is it the write or the read that is wrong? write outside the enum, read inside
    let x = V28 { id: kani::any(), s: kani::any(), d: kani::any() };
    let mut l = LW { arr: UnsafeCell::new([const { None }; 4]), len: 0 };
    l.arr.get_mut()[0] = Some(x);
    l.arr.get_mut()[1] = Some(x);
    l.len = 2;
    let mut e = EW::B(l);
    if let EW::B(l) = &mut e {
        let s = unsafe { &*l.arr.get() };
        assert!(s[1].is_some(), "some1");
        assert!(s[0].is_some(), "some0");
    }
    std::mem::forget(e);
}
