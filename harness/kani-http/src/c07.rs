//! C07 / C02 / C10 / C11 (HTTP storage): proof wrappers; bodies are mounted inside storage.rs.
use crate::workers::swarm::storage::verif_harness as h;
use std::net::{Ipv4Addr, Ipv6Addr};

macro_rules! p {
    ($name:ident, $unw:literal, $call:expr) => {
        #[kani::proof]
        #[kani::unwind($unw)]
        fn $name() {
            $call;
        }
    };
}
p!(c07_upsert_v4_small_n0, 3, h::upsert_step::<Ipv4Addr, 0, 1>(false));
p!(c07_upsert_v4_small_n1, 4, h::upsert_step::<Ipv4Addr, 1, 2>(false));
p!(c07_upsert_v4_small_n2, 5, h::upsert_step::<Ipv4Addr, 2, 3>(false));
p!(c07_upsert_v4_small_n3, 6, h::upsert_step::<Ipv4Addr, 3, 4>(false));
p!(c07_upsert_v4_small_n4, 7, h::upsert_step::<Ipv4Addr, 4, 5>(false));
p!(c07_upsert_v4_large_n5, 8, h::upsert_step::<Ipv4Addr, 5, 6>(true));
p!(c07_upsert_v6_small_n1, 4, h::upsert_step::<Ipv6Addr, 1, 2>(false));
p!(c07_scrape_n1_k1, 4, h::scrape_step::<1, 1>());
p!(c07_scrape_n1_k2, 4, h::scrape_step::<1, 2>());
p!(c07_scrape_n2_k3, 5, h::scrape_step::<2, 3>());
p!(c07_clean_small_n0, 3, h::clean_step::<0, 1>(false));
p!(c07_clean_small_n1, 4, h::clean_step::<1, 2>(false));
p!(c07_clean_small_n2, 5, h::clean_step::<2, 3>(false));
p!(c07_clean_large_n3, 6, h::clean_step::<3, 4>(true));

#[cfg(verif_pb_c07)]
include!(env!("VERIF_PLAYBACK_FILE"));
