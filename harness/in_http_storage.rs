//! Mounted inside aquatic_http `workers::swarm::storage` (guarded `#[path]`). C07 / C02 / C10 /
//! C11 step harnesses on the real HTTP swarm storage, same scheme as the UDP ones: arbitrary
//! invariant-satisfying pre-state of exactly N peers, one real operation, reference relation.
#![allow(dead_code)]
use super::*;
use aquatic_common::access_list::{AccessList, AccessListConfig, AccessListMode};
use aquatic_common::cli::LogLevel;
use aquatic_common::privileges::PrivilegeConfig;
use rand::rngs::SmallRng;
use std::net::{SocketAddrV4, SocketAddrV6};
use std::path::PathBuf;

use crate::config::*;

pub fn mk_config(max_peers: usize, max_scrape_torrents: usize, mode: AccessListMode) -> Config {
    Config {
        socket_workers: 1,
        swarm_workers: 1,
        log_level: LogLevel::Error,
        network: NetworkConfig {
            use_ipv4: true,
            use_ipv6: true,
            address_ipv4: SocketAddrV4::new(Ipv4Addr::UNSPECIFIED, 3000),
            address_ipv6: SocketAddrV6::new(Ipv6Addr::UNSPECIFIED, 3000, 0, 0),
            tcp_backlog: 1024,
            enable_tls: false,
            tls_certificate_path: PathBuf::new(),
            tls_private_key_path: PathBuf::new(),
            keep_alive: true,
            runs_behind_reverse_proxy: false,
            reverse_proxy_ip_header_name: String::new(),
            reverse_proxy_ip_header_format: ReverseProxyPeerIpHeaderFormat::LastAddress,
            set_only_ipv6: true,
        },
        protocol: ProtocolConfig { max_scrape_torrents, max_peers, peer_announce_interval: 120 },
        cleaning: CleaningConfig { torrent_cleaning_interval: 30, connection_cleaning_interval: 60, max_peer_age: 1800, max_connection_idle: 180 },
        privileges: PrivilegeConfig { drop_privileges: false, chroot_path: PathBuf::new(), group: String::new(), user: String::new() },
        access_list: AccessListConfig { mode, path: PathBuf::new() },
    }
}

pub fn any_rng() -> SmallRng {
    let s: [u64; 4] = kani::any();
    kani::assume(s[0] != 0 || s[1] != 0 || s[2] != 0 || s[3] != 0);
    unsafe { std::mem::transmute::<[u64; 4], SmallRng>(s) }
}

pub trait KIp: Ip {
    fn any_ip() -> Self;
}
impl KIp for Ipv4Addr {
    fn any_ip() -> Self {
        Ipv4Addr::from(kani::any::<[u8; 4]>())
    }
}
impl KIp for Ipv6Addr {
    fn any_ip() -> Self {
        Ipv6Addr::from(kani::any::<[u8; 16]>())
    }
}

#[derive(Clone, Copy)]
pub struct Ent<I: Ip> {
    pub key: ResponsePeer<I>,
    pub seeder: bool,
    pub deadline: u32,
}

pub fn any_ent<I: KIp>() -> Ent<I> {
    Ent { key: ResponsePeer { ip_address: I::any_ip(), port: kani::any() }, seeder: kani::any(), deadline: kani::any() }
}

pub fn any_ents<I: KIp, const N: usize>() -> [Ent<I>; N] {
    let mut a = [any_ent::<I>(); N];
    let mut i = 0;
    while i < N {
        a[i] = any_ent::<I>();
        let mut j = 0;
        while j < i {
            kani::assume(a[j].key != a[i].key);
            j += 1;
        }
        i += 1;
    }
    a
}

pub fn pick<I: Ip, const N: usize>(ents: &[Ent<I>; N], j: usize) -> Ent<I> {
    let mut r = ents[0];
    let mut i = 0;
    while i < N {
        if i == j {
            r = ents[i];
        }
        i += 1;
    }
    r
}

fn raw(d: u32) -> ValidUntil {
    ValidUntil::new_raw(SecondsSinceServerStart::new_raw(d))
}
fn deadline_is(v: &ValidUntil, d: u32) -> bool {
    let t: u32 = kani::any();
    v.valid(SecondsSinceServerStart::new_raw(t)) == (d > t)
}

pub fn mk_torrent<I: KIp, const N: usize>(ents: &[Ent<I>; N], large: bool) -> TorrentData<I> {
    if !large {
        let mut v = ArrayVec::new();
        let mut i = 0;
        while i < N {
            v.push((ents[i].key, Peer { valid_until: raw(ents[i].deadline), is_seeder: ents[i].seeder }));
            i += 1;
        }
        TorrentData::Small(SmallPeerMap(v))
    } else {
        let mut peers: IndexMap<ResponsePeer<I>, Peer> = Default::default();
        let mut ns = 0;
        let mut i = 0;
        while i < N {
            peers.push_unchecked(ents[i].key, Peer { valid_until: raw(ents[i].deadline), is_seeder: ents[i].seeder });
            if ents[i].seeder {
                ns += 1;
            }
            i += 1;
        }
        TorrentData::Large(LargePeerMap { peers, num_seeders: ns })
    }
}

pub struct Snap<I: Ip, const B: usize> {
    pub e: [Option<(ResponsePeer<I>, Peer)>; B],
    pub len: usize,
    pub large: bool,
    pub cached_seeders: usize,
}

pub fn snapshot<I: Ip, const B: usize>(m: &TorrentData<I>) -> Snap<I, B> {
    let mut e = [None; B];
    match m {
        TorrentData::Small(s) => {
            let n = s.0.len();
            assert!(n <= B, "harness bound: more entries than expected");
            let mut i = 0;
            while i < B && i < SMALL_PEER_MAP_CAPACITY {
                if i < n {
                    e[i] = Some(s.0[i]);
                }
                i += 1;
            }
            Snap { e, len: n, large: false, cached_seeders: 0 }
        }
        TorrentData::Large(l) => {
            let n = l.peers.len();
            assert!(n <= B, "harness bound: more entries than expected");
            let mut i = 0;
            while i < B {
                if let Some((k, p)) = l.peers.get_index(i) {
                    e[i] = Some((*k, *p));
                }
                i += 1;
            }
            Snap { e, len: n, large: true, cached_seeders: l.num_seeders }
        }
    }
}

impl<I: Ip, const B: usize> Snap<I, B> {
    pub fn find(&self, k: &ResponsePeer<I>) -> (usize, Option<Peer>) {
        let mut c = 0;
        let mut f = None;
        let mut i = 0;
        while i < B {
            if let Some((kk, p)) = &self.e[i] {
                if i < self.len && *kk == *k {
                    c += 1;
                    f = Some(*p);
                }
            }
            i += 1;
        }
        (c, f)
    }
    pub fn seeders(&self) -> usize {
        let mut c = 0;
        let mut i = 0;
        while i < B {
            if let Some((_, p)) = &self.e[i] {
                if i < self.len && p.is_seeder {
                    c += 1;
                }
            }
            i += 1;
        }
        c
    }
    pub fn inv(&self) -> bool {
        !self.large || self.cached_seeders == self.seeders()
    }
}

pub fn any_event() -> AnnounceEvent {
    let e: u8 = kani::any();
    kani::assume(e < 4);
    match e {
        0 => AnnounceEvent::Empty,
        1 => AnnounceEvent::Completed,
        2 => AnnounceEvent::Started,
        _ => AnnounceEvent::Stopped,
    }
}

/// C07 / C02: one `TorrentData::upsert_peer_and_get_response_peers`.
pub fn upsert_step<I: KIp, const N: usize, const B: usize>(large: bool) {
    assert!(B == N + 1);
    let ents = any_ents::<I, N>();
    let mut m = mk_torrent(&ents, large);
    let max_peers: usize = kani::any();
    kani::assume(max_peers <= 8);
    let config = mk_config(max_peers, 4, AccessListMode::Off);
    let mut rng = any_rng();
    let numwant: Option<usize> = if kani::any() { Some(kani::any()) } else { None };
    let event = any_event();
    let bytes_left: usize = kani::any();
    let port: u16 = kani::any();
    let req = AnnounceRequest {
        info_hash: InfoHash(kani::any()),
        peer_id: PeerId(kani::any()),
        port,
        bytes_uploaded: kani::any(),
        bytes_downloaded: kani::any(),
        bytes_left,
        event,
        numwant,
        key: None,
    };
    let ip = I::any_ip();
    let deadline: u32 = kani::any();

    let (r_seeders, r_leechers, peers) = m.upsert_peer_and_get_response_peers(&config, &mut rng, req, ip, raw(deadline));

    let key = ResponsePeer { ip_address: ip, port };
    let stopped = matches!(event, AnnounceEvent::Stopped);
    let seeder = bytes_left == 0;
    let mut others = 0usize;
    let mut other_seeders = 0usize;
    let mut was_present = false;
    let mut i = 0;
    while i < N {
        if ents[i].key == key {
            was_present = true;
        } else {
            others += 1;
            if ents[i].seeder {
                other_seeders += 1;
            }
        }
        i += 1;
    }
    // counts exclude the announcer
    assert!(r_seeders == other_seeders, "announce 'complete' != reference (other seeders)");
    assert!(r_leechers == others - other_seeders, "announce 'incomplete' != reference (other leechers)");

    let want_len = if stopped { others } else { others + 1 };
    let post = snapshot::<I, B>(&m);
    assert!(post.len == want_len, "stored peer count != reference");
    assert!(post.inv(), "cached seeder count inconsistent after announce");
    assert!(post.large || post.len <= SMALL_PEER_MAP_CAPACITY, "small map over capacity");
    let (cnt, found) = post.find(&key);
    match found {
        Some(p) => {
            assert!(!stopped, "stopped peer still stored");
            assert!(cnt == 1, "announcer stored more than once");
            assert!(p.is_seeder == seeder, "left==0 <=> seeder violated for announcer");
            assert!(deadline_is(&p.valid_until, deadline), "announce must refresh the deadline");
        }
        None => assert!(stopped, "announcing peer not stored"),
    }
    if N > 0 {
        let j: usize = kani::any();
        kani::assume(j < N);
        let ej = pick(&ents, j);
        if ej.key != key {
            let (cnt, found) = post.find(&ej.key);
            match found {
                Some(p) => assert!(cnt == 1 && p.is_seeder == ej.seeder && deadline_is(&p.valid_until, ej.deadline), "another peer's entry changed by announce"),
                None => assert!(false, "another peer's entry lost by announce"),
            }
        }
    }
    let sc = m.scrape_statistics();
    let total_seeders = other_seeders + if !stopped && seeder { 1 } else { 0 };
    assert!(sc.complete == total_seeders && sc.incomplete == want_len - total_seeders, "scrape counts != stored peers");

    // C02
    let limit = match numwant {
        None | Some(0) => max_peers,
        Some(n) => {
            if n < max_peers {
                n
            } else {
                max_peers
            }
        }
    };
    let k = peers.len();
    assert!(k <= limit, "more peers returned than min(numwant, max_peers)");
    if others <= limit {
        assert!(k == others, "all other members must be returned when they fit the limit");
    } else {
        assert!(k + 1 >= limit, "fewer than limit-1 peers returned from a larger swarm");
    }
    assert!(k <= B, "harness bound: reply longer than stored entries");
    let mut out = [key; B];
    let mut i = 0;
    while i < B {
        if i < k {
            out[i] = peers[i];
        }
        i += 1;
    }
    if k > 0 {
        let a: usize = kani::any();
        kani::assume(a < k);
        let mut pa = out[0];
        let mut i = 0;
        while i < B {
            if i == a {
                pa = out[i];
            }
            i += 1;
        }
        assert!(pa != key, "requester returned to itself");
        let mut member = false;
        let mut i = 0;
        while i < N {
            if ents[i].key == pa {
                member = true;
            }
            i += 1;
        }
        assert!(member, "returned peer is not a stored member of the torrent");
        let mut dup = 0usize;
        let mut i = 0;
        while i < B {
            if i < k && out[i] == pa {
                dup += 1;
            }
            i += 1;
        }
        assert!(dup == 1, "duplicate peer in reply");
    }
    kani::cover!(N == 0 || (was_present && !stopped), "re-announce of a stored peer");
    kani::cover!(N == 0 || (was_present && stopped), "stop of a stored peer");
    kani::cover!(!was_present && !stopped, "new peer");
    std::mem::forget(peers);
    std::mem::forget(m);
    std::mem::forget(config);
}

/// C07: `TorrentMap::handle_scrape_request` on a map holding one torrent of N peers.
pub fn scrape_step<const N: usize, const K: usize>() {
    let ents = any_ents::<Ipv4Addr, N>();
    let h: [u8; 20] = kani::any();
    let mut tm: TorrentMap<Ipv4Addr> = TorrentMap::new(0, true);
    tm.torrents.push_unchecked(InfoHash(h), mk_torrent(&ents, false));
    let max: usize = kani::any();
    kani::assume(max <= 3);
    let config = mk_config(4, max, AccessListMode::Off);
    let hs: [[u8; 20]; K] = kani::any();
    let mut v = Vec::with_capacity(K);
    let mut i = 0;
    while i < K {
        v.push(InfoHash(hs[i]));
        i += 1;
    }
    let r = tm.handle_scrape_request(&config, ScrapeRequest { info_hashes: v });
    let mut ns = 0usize;
    let mut i = 0;
    while i < N {
        if ents[i].seeder {
            ns += 1;
        }
        i += 1;
    }
    // each of the first `max` requested hashes is reported once; zeros for unknown ones
    let taken = if K < max { K } else { max };
    let mut distinct = 0usize;
    let mut i = 0;
    while i < K {
        if i < taken {
            let mut first = true;
            let mut j = 0;
            while j < K {
                if j < i && hs[j] == hs[i] {
                    first = false;
                }
                j += 1;
            }
            if first {
                distinct += 1;
            }
            match r.files.get(&InfoHash(hs[i])) {
                Some(st) => {
                    if hs[i] == h {
                        assert!(st.complete == ns && st.incomplete == N - ns, "scrape counts != stored peers");
                    } else {
                        assert!(st.complete == 0 && st.incomplete == 0, "non-zero count for an unknown torrent");
                    }
                }
                None => assert!(false, "requested torrent missing from scrape reply"),
            }
        }
        i += 1;
    }
    assert!(r.files.len() == distinct, "scrape reply must list each of the first max_scrape_torrents hashes exactly once");
    assert!(tm.torrents.len() == 1, "scrape must not create state");
    kani::cover!(K >= 2 && taken == 1, "scrape truncated");
    std::mem::forget(r);
    std::mem::forget(tm);
    std::mem::forget(config);
}

/// C07 / C10 / C11: `TorrentMap::clean` over one torrent of N peers.
pub fn clean_step<const N: usize, const B: usize>(large: bool) {
    let ents = any_ents::<Ipv4Addr, N>();
    let h: [u8; 20] = kani::any();
    let mut tm: TorrentMap<Ipv4Addr> = TorrentMap::new(0, true);
    tm.torrents.push_unchecked(InfoHash(h), mk_torrent(&ents, large));
    let mode = {
        let x: u8 = kani::any();
        kani::assume(x < 3);
        match x {
            0 => AccessListMode::Allow,
            1 => AccessListMode::Deny,
            _ => AccessListMode::Off,
        }
    };
    let config = mk_config(4, 4, mode);
    let listed: [u8; 20] = kani::any();
    let list_nonempty: bool = kani::any();
    let mut list = AccessList::default();
    if list_nonempty {
        list.insert_raw_for_verif(listed);
    }
    let shared = Arc::new(AccessListArcSwap::new(Arc::new(list)));
    let mut cache = create_access_list_cache(&shared);
    let now: u32 = kani::any();
    tm.clean(&config, &mut cache, SecondsSinceServerStart::new_raw(now));
    let member = list_nonempty && listed == h;
    let allowed = match mode {
        AccessListMode::Allow => member,
        AccessListMode::Deny => !member,
        AccessListMode::Off => true,
    };
    let mut kept = 0usize;
    let mut kept_seeders = 0usize;
    let mut i = 0;
    while i < N {
        if ents[i].deadline > now {
            kept += 1;
            if ents[i].seeder {
                kept_seeders += 1;
            }
        }
        i += 1;
    }
    match tm.torrents.get(&InfoHash(h)) {
        None => assert!(!(allowed && kept > 0), "permitted torrent with live peers removed by cleaning"),
        Some(t) => {
            assert!(allowed, "torrent forbidden by the access list survived cleaning");
            assert!(kept > 0, "torrent without peers survived cleaning (must be dropped by the next cleaning pass)");
            let post = snapshot::<Ipv4Addr, B>(t);
            assert!(post.len == kept, "stored peers != peers with deadline in the future");
            assert!(post.inv(), "cached seeder count inconsistent after cleaning");
            assert!(post.seeders() == kept_seeders, "seeder count after cleaning");
            if N > 0 {
                let j: usize = kani::any();
                kani::assume(j < N);
                let ej = pick(&ents, j);
                let (cnt, found) = post.find(&ej.key);
                if ej.deadline > now {
                    match found {
                        Some(p) => assert!(cnt == 1 && p.is_seeder == ej.seeder && deadline_is(&p.valid_until, ej.deadline), "live peer changed by cleaning"),
                        None => assert!(false, "peer removed before its deadline"),
                    }
                } else {
                    assert!(found.is_none(), "peer still stored at or after its deadline");
                }
            }
        }
    }
    kani::cover!(N == 0 || kept == N, "nothing expired");
    kani::cover!(N < 2 || (kept > 0 && kept < N), "some expired");
    kani::cover!(!allowed, "forbidden");
    std::mem::forget(tm);
    std::mem::forget(config);
    std::mem::forget(cache);
    std::mem::forget(shared);
}
