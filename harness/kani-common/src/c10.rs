//! C10 kernel: a deadline is `now + age`; an entry is valid exactly while deadline > t.
use aquatic_common::{SecondsSinceServerStart as S, ValidUntil};

#[kani::proof]
fn c10_valid_until_kernel() {
    let now: u32 = kani::any();
    let age: u32 = kani::any();
    let t: u32 = kani::any();
    // overflow region (server up for > 136 years or absurd ages) is reported separately
    kani::assume((now as u64) + (age as u64) <= u32::MAX as u64);
    let v = ValidUntil::new_with_now(S::new_raw(now), age);
    assert!(v.valid(S::new_raw(t)) == ((now as u64 + age as u64) > t as u64), "valid(t) <=> now+age > t");
    // never expires early, expires exactly at the deadline
    if age > 0 {
        assert!(v.valid(S::new_raw(now + age - 1)), "still valid one second before the deadline");
    }
    assert!(!v.valid(S::new_raw(now + age)), "expired at the deadline");
    kani::cover!(age == 0, "zero age");
    kani::cover!(now as u64 + age as u64 == u32::MAX as u64, "deadline at u32::MAX");
}

#[kani::proof]
fn c10_valid_until_raw() {
    let d: u32 = kani::any();
    let t: u32 = kani::any();
    let v = ValidUntil::new_raw(S::new_raw(d));
    assert!(v.valid(S::new_raw(t)) == (d > t), "valid(t) <=> deadline > t");
    assert!(S::new_raw(t).get() == t, "clock value round-trips");
}

#[kani::proof]
fn c10_valid_until_from_clock() {
    // ValidUntil::new reads the tracker clock (mocked: any whole second, or a monotonicity error)
    let now: Option<u32> = if kani::any() { Some(kani::any()) } else { None };
    aquatic_common::verif_shims::set_mock_clock(now);
    let age: u32 = kani::any();
    if let Some(n) = now {
        kani::assume((n as u64) + (age as u64) <= u32::MAX as u64);
    }
    let start = aquatic_common::ServerStartInstant::new();
    let v = ValidUntil::new(start, age);
    let t: u32 = kani::any();
    match (now, v) {
        (Some(n), Some(v)) => assert!(v.valid(S::new_raw(t)) == ((n as u64 + age as u64) > t as u64), "deadline = clock sample + age"),
        (None, None) => {}
        _ => assert!(false, "ValidUntil::new is Some exactly when the clock reads"),
    }
    kani::cover!(now.is_none(), "monotonicity error path");
}

#[cfg(verif_pb_c10)]
include!(env!("VERIF_PLAYBACK_FILE"));
