//! C14 (request side): the real query-string parsers (`AnnounceRequest::parse_query_string`,
//! `ScrapeRequest::parse_query_string`, `Request::parse_http_get_path`) on query strings whose
//! LAYOUT is concrete (which keys, in which order, how many characters per value) and whose VALUES
//! are symbolic: decimal digits of every number, two units of each identifier (one `%XY` with
//! arbitrary hex digits of either case, one raw URL-safe character), the event.
//! The oracle is the value the layout spells out, computed here without the parser.
//! One harness per layout: writer order, reversed order with an unknown key and no optional
//! field, each event, a missing mandatory field, scrapes of 1..2 hashes.
//! Stated outside: value lengths other than those of the layouts; `key=` values that need
//! percent-decoding; httparse (request line / header parsing) in `Request::parse_bytes`.
use aquatic_http_protocol::common::AnnounceEvent;
use aquatic_http_protocol::request::{AnnounceRequest, Request, ScrapeRequest};

fn zeros(_leaf: u32, _sub: u32) -> std::arch::x86_64::CpuidResult {
    std::arch::x86_64::CpuidResult { eax: 0, ebx: 0, ecx: 0, edx: 0 }
}

fn hexval(c: u8) -> u8 {
    match c {
        b'0'..=b'9' => c - b'0',
        b'a'..=b'f' => c - b'a' + 10,
        _ => c - b'A' + 10,
    }
}
fn any_hex() -> u8 {
    let c: u8 = kani::any();
    kani::assume((c >= b'0' && c <= b'9') || (c >= b'a' && c <= b'f') || (c >= b'A' && c <= b'F'));
    c
}
fn any_safe() -> u8 {
    let c: u8 = kani::any();
    kani::assume((c >= b'a' && c <= b'z') || (c >= b'A' && c <= b'Z') || (c >= b'0' && c <= b'9') || c == b'-' || c == b'.' || c == b'_' || c == b'~');
    c
}

/// 20 units: unit 0 = `%XY` (symbolic hex), unit 1 = symbolic safe raw char, units 2..19 fixed raw chars
fn push_id(q: &mut Vec<u8>, fill: u8) -> [u8; 20] {
    let (x, y, r) = (any_hex(), any_hex(), any_safe());
    q.push(b'%');
    q.push(x);
    q.push(y);
    q.push(r);
    let mut id = [fill; 20];
    id[0] = hexval(x) * 16 + hexval(y);
    id[1] = r;
    let mut i = 2;
    while i < 20 {
        q.push(fill);
        i += 1;
    }
    id
}

fn digit() -> u8 {
    let d: u8 = kani::any();
    kani::assume(d < 10);
    d
}
/// N symbolic decimal digits (leading zeros allowed); returns the value
fn push_num<const N: usize>(q: &mut Vec<u8>) -> usize {
    let mut v = 0usize;
    let mut i = 0;
    while i < N {
        let d = digit();
        q.push(b'0' + d);
        v = v * 10 + d as usize;
        i += 1;
    }
    v
}
fn push(q: &mut Vec<u8>, s: &[u8]) {
    // memcpy, not a loop: keeps the global unwind bound at the size of the real parser's loops
    q.extend_from_slice(s);
}
fn as_str(q: &Vec<u8>) -> &str {
    // every pushed byte is ASCII
    unsafe { std::str::from_utf8_unchecked(&q[..]) }
}

struct Want {
    ih: [u8; 20],
    pid: [u8; 20],
    port: usize,
    up: usize,
    down: usize,
    left: usize,
}

fn check(r: &anyhow::Result<AnnounceRequest>, w: &Want, event: AnnounceEvent, numwant: Option<usize>, has_key: bool) {
    match r {
        Ok(a) => {
            let k: usize = kani::any();
            kani::assume(k < 20);
            assert!(a.info_hash.0[k] == w.ih[k], "info_hash decoded exactly");
            assert!(a.peer_id.0[k] == w.pid[k], "peer_id decoded exactly");
            assert!(a.port as usize == w.port, "port value");
            assert!(a.bytes_uploaded == w.up, "uploaded value");
            assert!(a.bytes_downloaded == w.down, "downloaded value");
            assert!(a.bytes_left == w.left, "left value");
            assert!(a.event == event, "event value");
            assert!(a.numwant == numwant, "numwant value / absent");
            assert!(a.key.is_some() == has_key, "key present iff sent");
            kani::cover!(true, "accepted");
        }
        Err(_) => assert!(false, "well-formed announce query string rejected"),
    }
}

/// writer order, all optional fields, given event text
fn announce_writer_order(ev_text: &[u8], ev: AnnounceEvent, via_path: bool) {
    let mut q: Vec<u8> = Vec::with_capacity(256);
    if via_path {
        push(&mut q, b"/announce?");
    }
    push(&mut q, b"info_hash=");
    let ih = push_id(&mut q, b'k');
    push(&mut q, b"&peer_id=");
    let pid = push_id(&mut q, b'p');
    push(&mut q, b"&port=");
    let port = push_num::<4>(&mut q);
    push(&mut q, b"&uploaded=");
    let up = push_num::<2>(&mut q);
    push(&mut q, b"&downloaded=");
    let down = push_num::<2>(&mut q);
    push(&mut q, b"&left=");
    let left = push_num::<3>(&mut q);
    if ev_text.len() > 0 {
        push(&mut q, b"&event=");
        push(&mut q, ev_text);
    }
    push(&mut q, b"&numwant=");
    let nw = push_num::<2>(&mut q);
    push(&mut q, b"&key=4ab4b877&compact=1");
    let w = Want { ih, pid, port, up, down, left };
    if via_path {
        let r = Request::parse_http_get_path(as_str(&q));
        match &r {
            Ok(Request::Announce(a)) => {
                let rr: anyhow::Result<AnnounceRequest> = Ok(a.clone());
                check(&rr, &w, ev, Some(nw), true);
                std::mem::forget(rr);
            }
            _ => assert!(false, "well-formed /announce path rejected or misrouted"),
        }
        std::mem::forget(r);
    } else {
        let r = AnnounceRequest::parse_query_string(as_str(&q));
        check(&r, &w, ev, Some(nw), true);
        std::mem::forget(r);
    }
    std::mem::forget(q);
}

/// reversed order, an unknown key in the middle, no optional field
fn announce_reversed() {
    let mut q: Vec<u8> = Vec::with_capacity(256);
    push(&mut q, b"compact=1&left=");
    let left = push_num::<3>(&mut q);
    push(&mut q, b"&downloaded=");
    let down = push_num::<2>(&mut q);
    push(&mut q, b"&supportcrypto=1&uploaded=");
    let up = push_num::<2>(&mut q);
    push(&mut q, b"&port=");
    let port = push_num::<4>(&mut q);
    push(&mut q, b"&peer_id=");
    let pid = push_id(&mut q, b'p');
    push(&mut q, b"&info_hash=");
    let ih = push_id(&mut q, b'k');
    let w = Want { ih, pid, port, up, down, left };
    let r = AnnounceRequest::parse_query_string(as_str(&q));
    check(&r, &w, AnnounceEvent::Empty, None, false);
    std::mem::forget(r);
    std::mem::forget(q);
}

/// one mandatory field left out (which one is symbolic among port/left/uploaded/downloaded by layout index)
fn announce_missing(which: u8) {
    let mut q: Vec<u8> = Vec::with_capacity(256);
    push(&mut q, b"info_hash=");
    let _ = push_id(&mut q, b'k');
    push(&mut q, b"&peer_id=");
    let _ = push_id(&mut q, b'p');
    if which != 0 {
        push(&mut q, b"&port=");
        let _ = push_num::<4>(&mut q);
    }
    if which != 1 {
        push(&mut q, b"&uploaded=");
        let _ = push_num::<2>(&mut q);
    }
    if which != 2 {
        push(&mut q, b"&downloaded=");
        let _ = push_num::<2>(&mut q);
    }
    if which != 3 {
        push(&mut q, b"&left=");
        let _ = push_num::<3>(&mut q);
    }
    push(&mut q, b"&compact=1");
    let r = AnnounceRequest::parse_query_string(as_str(&q));
    assert!(r.is_err(), "announce without a mandatory field must be rejected");
    std::mem::forget(r);
    std::mem::forget(q);
}

/// port of 5 digits: accepted iff <= 65535
fn announce_port5() {
    let mut q: Vec<u8> = Vec::with_capacity(256);
    push(&mut q, b"info_hash=");
    let ih = push_id(&mut q, b'k');
    push(&mut q, b"&peer_id=");
    let pid = push_id(&mut q, b'p');
    push(&mut q, b"&port=");
    let port = push_num::<5>(&mut q);
    push(&mut q, b"&uploaded=1&downloaded=2&left=0");
    let r = AnnounceRequest::parse_query_string(as_str(&q));
    if port <= 65535 {
        let w = Want { ih, pid, port, up: 1, down: 2, left: 0 };
        check(&r, &w, AnnounceEvent::Empty, None, false);
    } else {
        assert!(r.is_err(), "port above 65535 must be rejected");
        kani::cover!(true, "rejected");
    }
    std::mem::forget(r);
    std::mem::forget(q);
}

fn scrape<const K: usize>(via_path: bool, unknown_between: bool) {
    let mut q: Vec<u8> = Vec::with_capacity(256);
    if via_path {
        push(&mut q, b"/scrape?");
    }
    let mut want = [[0u8; 20]; 2];
    let mut i = 0;
    while i < K {
        if i > 0 {
            push(&mut q, b"&");
            if unknown_between {
                push(&mut q, b"x=1&");
            }
        }
        push(&mut q, b"info_hash=");
        let id = push_id(&mut q, b'a' + i as u8);
        if i == 0 {
            want[0] = id;
        } else {
            want[1] = id;
        }
        i += 1;
    }
    let r: anyhow::Result<ScrapeRequest> = if via_path {
        match Request::parse_http_get_path(as_str(&q)) {
            Ok(Request::Scrape(s)) => Ok(s),
            Ok(other) => {
                std::mem::forget(other);
                assert!(false, "/scrape path misrouted");
                unreachable!()
            }
            Err(e) => Err(e),
        }
    } else {
        ScrapeRequest::parse_query_string(as_str(&q))
    };
    match &r {
        Ok(s) => {
            assert!(s.info_hashes.len() == K, "scrape lists every info_hash parameter once");
            let k: usize = kani::any();
            kani::assume(k < 20);
            assert!(s.info_hashes[0].0[k] == want[0][k], "first hash decoded exactly");
            if K > 1 {
                assert!(s.info_hashes[1].0[k] == want[1][k], "second hash decoded exactly, request order kept");
            }
            kani::cover!(true, "accepted");
        }
        Err(_) => assert!(false, "well-formed scrape query string rejected"),
    }
    std::mem::forget(r);
    std::mem::forget(q);
}

macro_rules! qh {
    ($name:ident, $body:expr) => {
        #[kani::proof]
        #[kani::unwind(24)]
        #[kani::stub(std::backtrace::Backtrace::capture, crate::backtrace_stub)]
        #[kani::stub(alloc::fmt::format, crate::format_stub)]
        #[kani::stub(std::arch::x86_64::__cpuid_count, zeros)]
        fn $name() {
            $body
        }
    };
}

qh!(c14q_announce_started, announce_writer_order(b"started", AnnounceEvent::Started, false));
qh!(c14q_announce_stopped, announce_writer_order(b"stopped", AnnounceEvent::Stopped, false));
qh!(c14q_announce_completed, announce_writer_order(b"completed", AnnounceEvent::Completed, false));
qh!(c14q_announce_noevent, announce_writer_order(b"", AnnounceEvent::Empty, false));
qh!(c14q_announce_path, announce_writer_order(b"started", AnnounceEvent::Started, true));
qh!(c14q_announce_reversed, announce_reversed());
qh!(c14q_announce_missing_port, announce_missing(0));
qh!(c14q_announce_missing_uploaded, announce_missing(1));
qh!(c14q_announce_missing_downloaded, announce_missing(2));
qh!(c14q_announce_missing_left, announce_missing(3));
qh!(c14q_announce_port5, announce_port5());
qh!(c14q_scrape_k1, scrape::<1>(false, false));
qh!(c14q_scrape_k2, scrape::<2>(false, true));
qh!(c14q_scrape_path_k1, scrape::<1>(true, false));
