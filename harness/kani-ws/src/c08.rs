//! C08 / C09 / C10 (WebTorrent storage): proof wrappers; bodies are mounted inside the real
//! storage.rs.
use crate::workers::swarm::storage::verif_harness as h;

macro_rules! p {
    ($name:ident, $unw:literal, $call:expr) => {
        #[kani::proof]
        #[kani::unwind($unw)]
        fn $name() {
            $call;
        }
    };
}
// model capacity is 2 in this crate (--cfg verif_cap2): stored values are themselves maps and
// CBMC's cost grows quadratically with the capacity; N stored peers + the announcer <= 2.
p!(c08_announce_n0, 3, h::c08_announce_step::<0, 1>());
p!(c08_announce_n1, 4, h::c08_announce_step::<1, 2>());
p!(c08_scrape_n1_k1, 4, h::c08_scrape::<1, 1>());
p!(c08_scrape_n1_k2, 4, h::c08_scrape::<1, 2>());
p!(c08_clean_n0, 3, h::c08_clean_step::<0, 1>());
p!(c08_clean_n1, 4, h::c08_clean_step::<1, 2>());
p!(c08_clean_n2, 4, h::c08_clean_step::<2, 2>());
p!(c08_close_n1, 4, h::c08_close_step::<1, 2>());
p!(c08_close_n2, 4, h::c08_close_step::<2, 2>());
p!(c09_offers_n0_k1, 4, h::c09_offers_step::<0, 1, 1>());
p!(c09_offers_n1_k1, 4, h::c09_offers_step::<1, 2, 1>());
p!(c09_offers_n1_k2, 4, h::c09_offers_step::<1, 2, 2>());
p!(c09_offer_one, 4, h::c09_offer_one());
p!(c08_announce_lean_same, 4, h::c08_announce_lean(true));
p!(c08_announce_lean_fresh, 4, h::c08_announce_lean(false));
p!(c09_answer_lean, 4, h::c09_answer_lean());
p!(c09_offer_lean, 4, h::c09_offer_lean());
p!(c09_answer_n0, 4, h::c09_answer_step::<0, 1>());
p!(c09_answer_n1, 4, h::c09_answer_step::<1, 2>());

// C02: receiver selection; these need model capacity 8 and are run from the `kani-ws8`
// registry entry (same crate directory, RUSTFLAGS without verif_cap2/verif_cap4).
p!(c02_ws_extract_n0, 3, h::c02_ws_extract::<0>());
p!(c02_ws_extract_n2, 5, h::c02_ws_extract::<2>());
p!(c02_ws_extract_n4, 7, h::c02_ws_extract::<4>());
p!(c02_ws_extract_n6, 9, h::c02_ws_extract::<6>());

#[cfg(verif_pb_c08)]
include!(env!("VERIF_PLAYBACK_FILE"));
