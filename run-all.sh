#!/bin/bash
# convenience: run every claimed check at one tier, sequentially (each check parallelises internally)
TIER=${1:-quick}
cd "$(dirname "$0")"
for p in $(python3 -c "
import sys; sys.path.insert(0,'.')
from lib import registry
print(' '.join(sorted(registry.PROPS)))"); do
  /usr/bin/time -f "$p wall %es" ./check $p --tier $TIER > logs/$p.$TIER.out 2>&1
  echo "$p exit=$? $(tail -1 logs/$p.$TIER.out)"
done
