//! Mounted inside `aquatic_common::access_list` (guarded `#[path]` line) so that it can reach
//! the private `parse_info_hash` and `AccessList.0`. Bodies are plain `pub fn`s; the
//! `#[kani::proof]` wrappers live in harness/kani-common.
use super::*;

fn hexval(c: u8) -> Option<u8> {
    match c {
        b'0'..=b'9' => Some(c - b'0'),
        b'a'..=b'f' => Some(c - b'a' + 10),
        b'A'..=b'F' => Some(c - b'A' + 10),
        _ => None,
    }
}

/// parse_info_hash(line) == Ok(v)  <=>  line is exactly 40 ASCII hex digits (either case) and
/// v is their big-endian nibble decoding (independent reference decoder above).
fn parse_relation(buf: &[u8; 42], len: usize, s: &str) {
    let r = parse_info_hash(s);
    // reference verdict, quantified over a solver-chosen position
    let mut all_hex = true;
    let mut i = 0;
    while i < 42 {
        if i < len && hexval(buf[i]).is_none() {
            all_hex = false;
        }
        i += 1;
    }
    let expect_ok = len == 40 && all_hex;
    match &r {
        Ok(v) => {
            assert!(expect_ok, "access list line accepted although not 40 hex digits");
            let k: usize = kani::any();
            kani::assume(k < 20);
            let want = hexval(buf[2 * k]).unwrap() * 16 + hexval(buf[2 * k + 1]).unwrap();
            assert!(v[k] == want, "access list line decoded to wrong byte");
        }
        Err(_) => assert!(!expect_ok, "well-formed 40-hex-digit line rejected"),
    }
    kani::cover!(r.is_ok(), "some line accepted");
    kani::cover!(r.is_err() && len == 40, "40-char line with a non-hex char rejected");
    kani::cover!(r.is_err() && len == 41 && all_hex, "41 hex digits rejected");
    std::mem::forget(r);
}

pub fn c11_parse_info_hash_ascii() {
    let buf: [u8; 42] = kani::any();
    let len: usize = kani::any();
    kani::assume(len <= 42);
    let mut i = 0;
    while i < 42 {
        kani::assume(buf[i] < 0x80);
        i += 1;
    }
    let s = unsafe { std::str::from_utf8_unchecked(&buf[..len]) };
    parse_relation(&buf, len, s);
}

/// Lines containing one two-byte UTF-8 character at any position (valid UTF-8 by construction).
pub fn c11_parse_info_hash_non_ascii() {
    let mut buf: [u8; 42] = kani::any();
    let len: usize = kani::any();
    kani::assume(len >= 2 && len <= 42);
    let pos: usize = kani::any();
    kani::assume(pos < 41 && pos + 1 < len);
    let mut i = 0;
    while i < 42 {
        kani::assume(buf[i] < 0x80 || i == pos || i == pos + 1);
        i += 1;
    }
    let lead: u8 = kani::any();
    let cont: u8 = kani::any();
    kani::assume(lead >= 0xC2 && lead <= 0xDF && cont >= 0x80 && cont <= 0xBF);
    buf[pos] = lead;
    buf[pos + 1] = cont;
    let s = unsafe { std::str::from_utf8_unchecked(&buf[..len]) };
    let r = parse_info_hash(s);
    assert!(r.is_err(), "line with a non-ASCII character accepted");
    kani::cover!(len == 40, "40-byte line with non-ascii char");
    kani::cover!(len == 41, "40-char line (41 bytes) with non-ascii char");
    std::mem::forget(r);
}

fn any_mode() -> AccessListMode {
    let m: u8 = kani::any();
    kani::assume(m < 3);
    match m {
        0 => AccessListMode::Allow,
        1 => AccessListMode::Deny,
        _ => AccessListMode::Off,
    }
}

/// allows(mode, h) for a list of N symbolic hashes == the set-theoretic definition, through all
/// three entry points (AccessList, the ArcSwap, the per-worker cache).
pub fn c11_allows_truth_table<const N: usize>() {
    let hs: [[u8; 20]; N] = kani::any();
    let mut list = AccessList::default();
    let mut i = 0;
    while i < N {
        list.0.insert(hs[i]);
        i += 1;
    }
    let q: [u8; 20] = kani::any();
    let mode = any_mode();
    let mut member = false;
    let mut i = 0;
    while i < N {
        if hs[i] == q {
            member = true;
        }
        i += 1;
    }
    let want = match mode {
        AccessListMode::Allow => member,
        AccessListMode::Deny => !member,
        AccessListMode::Off => true,
    };
    assert!(list.allows(mode, &q) == want, "AccessList::allows differs from set semantics");
    let shared = Arc::new(ArcSwap::new(Arc::new(list)));
    assert!(AccessListQuery::allows(&*shared, mode, &q) == want, "ArcSwap allows differs from set semantics");
    let mut cache = create_access_list_cache(&shared);
    assert!(cache.load().allows(mode, &q) == want, "cached allows differs from set semantics");
    kani::cover!(N == 0 || (member && matches!(mode, AccessListMode::Deny)), "denied member");
    kani::cover!(!member && matches!(mode, AccessListMode::Allow), "unlisted in allow mode");
    std::mem::forget(cache);
    std::mem::forget(shared);
}

pub fn stub_create_from_path(_p: &PathBuf) -> anyhow::Result<AccessList> {
    if kani::any() {
        let mut l = AccessList::default();
        l.0.insert(kani::any());
        Ok(l)
    } else {
        Err(anyhow::anyhow!("unreadable or malformed"))
    }
}

/// Reload: on error the previous list stays fully in force (same Arc) and the error is
/// returned; on success decisions follow the new list, also through an existing worker cache.
/// `create_from_path` is stubbed to an arbitrary Result (file I/O is outside the encoding).
pub fn c11_update_keeps_old_on_error() {
    let old_hash: [u8; 20] = kani::any();
    let mut old = AccessList::default();
    old.0.insert(old_hash);
    let old_arc = Arc::new(old);
    let shared = Arc::new(ArcSwap::new(old_arc.clone()));
    let mut cache = create_access_list_cache(&shared);
    let _ = cache.load();
    let mode = any_mode();
    let config = AccessListConfig { mode, path: PathBuf::new() };
    let r = update_access_list(&config, &shared);
    let now = shared.load_full();
    let q: [u8; 20] = kani::any();
    match &r {
        Err(_) => {
            assert!(mode.is_on(), "mode off must not fail");
            assert!(Arc::ptr_eq(&now, &old_arc), "failed reload replaced the list");
            assert!(cache.load().allows(AccessListMode::Allow, &q) == (q == old_hash), "failed reload changed decisions");
        }
        Ok(()) => {
            if mode.is_on() {
                assert!(!Arc::ptr_eq(&now, &old_arc), "successful reload kept the old list");
                assert!(now.len() == 1, "new list content");
                let new_allows = now.allows(AccessListMode::Allow, &q);
                assert!(cache.load().allows(AccessListMode::Allow, &q) == new_allows, "worker cache does not follow reload");
            } else {
                assert!(Arc::ptr_eq(&now, &old_arc), "mode off must not reload");
            }
        }
    }
    kani::cover!(r.is_err(), "reload failed");
    kani::cover!(r.is_ok() && mode.is_on(), "reload succeeded");
    std::mem::forget(r);
    std::mem::forget(cache);
    std::mem::forget(shared);
    std::mem::forget(now);
    std::mem::forget(old_arc);
}
