#!/usr/bin/env python3
"""Regenerates /verif/MANIFEST.json from lib/registry.py (run after changing the registry)."""
import json
import os
import subprocess
import sys

sys.path.insert(0, os.path.dirname(os.path.dirname(os.path.abspath(__file__))))
from lib import registry  # noqa: E402

VERIF = os.path.dirname(os.path.dirname(os.path.abspath(__file__)))

ALL = ["C%02d" % i for i in range(1, 21)]


def hook_commits():
    try:
        out = subprocess.run(["git", "-C", "/repo", "log", "--format=%H %s"], capture_output=True, text=True).stdout
    except OSError:
        return []
    return [l.split()[0] for l in out.splitlines() if " verif-hook:" in l or l.split(" ", 1)[1].startswith("verif-hook")]


def main():
    checks = []
    for pid in ALL:
        P = registry.PROPS.get(pid)
        if not P:
            continue
        has_thorough = any(h.get("tier") == "thorough" for h in P["harnesses"])
        c = {
            "property_id": pid,
            "quick_cmd": "./check %s --tier quick" % pid,
            "thorough_cmd": "./check %s --tier thorough" % pid,
            "evidence_file": "/verif/evidence/%s.json" % pid,
            "replay_cmd_template": "./check %s --replay {path}" % pid,
            "engine": P.get("engine", "kani-cbmc"),
            "level_claimed": {
                "category": P["level"],
                "text": P.get("level_text", ""),
                "design_ref": P.get("design_ref", "DESIGN.md section 6 (%s)" % pid),
            },
            "level_note": P.get("level_note", "") or ("Bounds: %s. Outside the claim: %s. Trusted: %s" % (
                P.get("bounds", ""), P.get("outside", ""), "; ".join(P.get("assumptions", []) + P.get("models", [])))),
            "technique": P.get("technique", "bounded symbolic execution of the compiled Rust code (Kani 0.68 -> CBMC 6.11 -> CaDiCaL), solver verdict over all inputs within the stated bounds"),
        }
        if not has_thorough:
            c["thorough_cmd"] = "./check %s --tier thorough" % pid
        checks.append(c)
    na = []
    for pid in ALL:
        if pid not in registry.PROPS:
            na.append({"property_id": pid, "reason": registry.NOT_APPLICABLE.get(pid, "no check built")})
    m = {
        "version": 1,
        "setup_cmd": "./setup.sh",
        "hooks": {
            "guard": "greatest_ape_aquatic_verif",
            "enable": "cfg(kani) (set by cargo kani for every crate) switches container/lock/clock models in; "
                      "RUSTFLAGS='--cfg greatest_ape_aquatic_verif' exposes the same guarded constructors to native replay builds",
            "baseline_off_cmd": "cd /repo && cargo test --workspace --no-fail-fast --offline",
            "source_commits": hook_commits(),
            "add_only": True,
        },
        "engines": [
            {"name": "kani-cbmc", "path": "/verif/check", "serves_properties": [c["property_id"] for c in checks if c["engine"] == "kani-cbmc"],
             "kind_free_text": "Kani 0.68 proof harnesses compiled from /repo's working tree; CBMC 6.11 + CaDiCaL decide them; counterexamples replayed natively with cargo kani playback"},
            {"name": "z3", "path": "/verif/lib/smt.py", "serves_properties": [c["property_id"] for c in checks if "z3" in c["engine"]],
             "kind_free_text": "SMT-LIB2 encodings regenerated from constants extracted from the current sources; z3 decides; cvc5 cross-check"},
        ],
        "checks": checks,
        "notes": registry.NOTES,
        "not_applicable": na,
    }
    json.dump(m, open(os.path.join(VERIF, "MANIFEST.json"), "w"), indent=1)
    print("wrote MANIFEST.json: %d checks, %d not applicable" % (len(checks), len(na)))


if __name__ == "__main__":
    main()
