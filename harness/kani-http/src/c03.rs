//! C03 (HTTP behind a reverse proxy): the real `parse_request` -> `parse_forwarded_header` on a
//! request with two occurrences of a header whose NAME may or may not be the configured one
//! (symbolic last letter) and whose VALUES are address lists with symbolic decimal digits.
//! Oracle: the last address of the last occurrence of the configured header; a request without
//! the configured header is refused (no address is ever taken from anywhere else).
use crate::config::Config;
use crate::workers::socket::request::{parse_request, RequestParseError};
use std::net::{IpAddr, Ipv4Addr};

fn zeros(_leaf: u32, _sub: u32) -> std::arch::x86_64::CpuidResult {
    std::arch::x86_64::CpuidResult { eax: 0, ebx: 0, ecx: 0, edx: 0 }
}
fn backtrace_stub() -> std::backtrace::Backtrace {
    std::backtrace::Backtrace::disabled()
}
fn format_stub(_a: std::fmt::Arguments<'_>) -> String {
    String::new()
}

fn push(q: &mut Vec<u8>, s: &[u8]) {
    q.extend_from_slice(s);
}
/// "D.D.D.D" with four symbolic digits
fn push_addr(q: &mut Vec<u8>) -> Ipv4Addr {
    let mut o = [0u8; 4];
    let mut i = 0;
    while i < 4 {
        let d: u8 = kani::any();
        kani::assume(d < 10);
        if i > 0 {
            q.push(b'.');
        }
        q.push(b'0' + d);
        o[i] = d;
        i += 1;
    }
    Ipv4Addr::new(o[0], o[1], o[2], o[3])
}
/// header line "X-Forwarded-Fo?: <a>, <b>\r\n" (TWO=true) or "...: <b>\r\n"; returns (is the configured name, b)
fn push_header(q: &mut Vec<u8>, two: bool, tight: bool) -> (bool, Ipv4Addr) {
    let is_it: bool = kani::any();
    push(q, b"X-Forwarded-Fo");
    q.push(if is_it { b'r' } else { b'x' });
    push(q, b": ");
    if two {
        let _ = push_addr(q);
        push(q, if tight { b"," } else { b", " });
    }
    let b = push_addr(q);
    push(q, b"\r\n");
    (is_it, b)
}

fn forwarded(two_first: bool, two_second: bool) {
    let mut config = Config::default();
    config.network.runs_behind_reverse_proxy = true;
    config.network.reverse_proxy_ip_header_name = "X-Forwarded-For".into();
    let mut q: Vec<u8> = Vec::with_capacity(256);
    push(&mut q, b"GET /scrape?info_hash=aaaaaaaaaaaaaaaaaaaa HTTP/1.1\r\nHost: h\r\n");
    let (m1, a1) = push_header(&mut q, two_first, false);
    let (m2, a2) = push_header(&mut q, two_second, true);
    push(&mut q, b"\r\n");
    let r = parse_request(&config, &q[..]);
    match &r {
        Ok((_req, ip)) => {
            assert!(m1 || m2, "request without the configured header must be refused");
            let want = if m2 { a2 } else { a1 };
            assert!(*ip == Some(IpAddr::V4(want)), "peer address must be the last address of the last occurrence of the configured header");
            kani::cover!(m2, "last occurrence used");
            kani::cover!(m1 && !m2, "only first occurrence carries the configured name");
        }
        Err(RequestParseError::RequiredPeerIpHeaderMissing(_)) => {
            assert!(!m1 && !m2, "configured header present with a well-formed address list, yet refused");
            kani::cover!(true, "refused");
        }
        Err(_) => assert!(false, "well-formed request rejected"),
    }
    std::mem::forget(r);
    std::mem::forget(q);
    std::mem::forget(config);
}

macro_rules! fh {
    ($name:ident, $body:expr) => {
        #[kani::proof]
        #[kani::unwind(45)]
        #[kani::stub(std::backtrace::Backtrace::capture, backtrace_stub)]
        #[kani::stub(alloc::fmt::format, format_stub)]
        #[kani::stub(std::arch::x86_64::__cpuid_count, zeros)]
        fn $name() {
            $body
        }
    };
}
fh!(c03_forwarded_1_1, forwarded(false, false));
fh!(c03_forwarded_2_2, forwarded(true, true));

#[cfg(verif_pb_c03)]
include!(env!("VERIF_PLAYBACK_FILE"));
