//! Models of third-party containers, compiled into `aquatic_common` only under
//! `--cfg greatest_ape_aquatic_verif` (mounted by a guarded `#[path]` line).
//!
//! Under Kani (`cfg(kani)`): `Vec`-backed maps with the *documented* semantics of
//! indexmap / hashbrown (insertion order, swap-remove perturbation, order-preserving retain).
//! Real hash containers cost 90-200 s per symbolic insert under CBMC (SipHash/aHash), which is
//! why they are replaced. Without `cfg(kani)` the real types are re-exported, so a native build
//! with the guard on behaves exactly like the normal build.

#[cfg(not(kani))]
pub type IndexMap<K, V> = ::indexmap::IndexMap<K, V, ::ahash::RandomState>;
#[cfg(not(kani))]
pub use ::hashbrown::{HashMap, HashSet};
#[cfg(not(kani))]
pub mod indexmap_map {
    pub use ::indexmap::map::Entry;
}

#[cfg(kani)]
pub use model::{HashMap, HashSet, IndexMap};
#[cfg(kani)]
pub mod indexmap_map {
    pub use super::model::Entry;
}

#[cfg(kani)]
pub mod model {
    //! Array-backed (no reallocation), capacity `CAP`. Every loop carries a *concrete* bound
    //! (`i < CAP`) next to the symbolic one (`i < len`) so that CBMC's symbolic execution stops
    //! unrolling at CAP instead of at the harness-wide unwind bound. Exceeding CAP is a
    //! model-capacity assertion failure (never silently truncated).
    use std::cell::UnsafeCell;
    use std::ops::Range;

    /// 8 by default; harness crates whose stored values are themselves maps (aquatic_ws: peers
    /// hold a map of pending offers) build with `--cfg verif_cap4` to keep the objects small.
    #[cfg(not(verif_cap4))]
    pub const CAP: usize = 8;
    #[cfg(all(verif_cap4, not(verif_cap2)))]
    pub const CAP: usize = 4;
    #[cfg(verif_cap2)]
    pub const CAP: usize = 2;

    /// Insertion-ordered map: linear search over an array of pairs.
    ///
    /// The slot array sits in an `UnsafeCell` on purpose: `UnsafeCell` exposes no niche, so enums
    /// that contain the map (e.g. `PeerMap::{Small,Large}`) keep a plain tag that CBMC can
    /// constant-fold; with bare `Option` slots rustc niche-fills the enum and CBMC treats the
    /// discriminant as symbolic, executing both variants' code on every call (10x formula).
    /// (`MaybeUninit` slots also hide the niche but CBMC mis-tracked writes through the union.)
    /// Slots `0..len` are `Some`.
    pub struct IndexMap<K, V> {
        pub entries: UnsafeCell<[Option<(K, V)>; CAP]>,
        pub len: usize,
    }

    /// hashbrown::HashMap: same model (iteration order of the real map is unspecified; no
    /// checked property may depend on it).
    pub type HashMap<K, V> = IndexMap<K, V>;

    impl<K, V> Default for IndexMap<K, V> {
        fn default() -> Self {
            Self { entries: UnsafeCell::new([const { None }; CAP]), len: 0 }
        }
    }

    impl<K: Clone, V: Clone> Clone for IndexMap<K, V> {
        fn clone(&self) -> Self {
            let mut m = Self::default();
            let mut i = 0;
            while i < CAP {
                if i >= self.len {
                    break;
                }
                let c = self.at(i).clone();
                m.put(i, Some(c));
                i += 1;
            }
            m.len = self.len;
            m
        }
    }

    impl<K, V> std::fmt::Debug for IndexMap<K, V> {
        fn fmt(&self, f: &mut std::fmt::Formatter<'_>) -> std::fmt::Result {
            f.write_str("IndexMap")
        }
    }

    impl<K, V> IndexMap<K, V> {
        pub fn new() -> Self {
            Self::default()
        }
        pub fn with_capacity(_n: usize) -> Self {
            Self::default()
        }
        pub fn len(&self) -> usize {
            self.len
        }
        pub fn is_empty(&self) -> bool {
            self.len == 0
        }
        fn slots(&self) -> &[Option<(K, V)>; CAP] {
            unsafe { &*self.entries.get() }
        }
        fn at(&self, i: usize) -> &(K, V) {
            match &self.slots()[i] {
                Some(e) => e,
                None => unreachable!(),
            }
        }
        fn at_mut(&mut self, i: usize) -> &mut (K, V) {
            match &mut self.entries.get_mut()[i] {
                Some(e) => e,
                None => unreachable!(),
            }
        }
        /// Slot writes go through `ptr::write`: Kani 0.68 loses an aggregate assignment
        /// `slots[i] = Some(big_value)` when the map lives inside a tagged enum variant
        /// (reproduced in harness/kani-common/src/dbg.rs); the raw write is modelled correctly.
        fn put(&mut self, i: usize, e: Option<(K, V)>) {
            let slot: *mut Option<(K, V)> = &mut self.entries.get_mut()[i];
            unsafe { std::ptr::write(slot, e) };
        }
        fn take(&mut self, i: usize) -> (K, V) {
            let slot: *mut Option<(K, V)> = &mut self.entries.get_mut()[i];
            let old = unsafe { std::ptr::read(slot) };
            unsafe { std::ptr::write(slot, None) };
            match old {
                Some(e) => e,
                None => unreachable!(),
            }
        }
        /// harness-side constructor: append without looking for duplicates
        pub fn push_unchecked(&mut self, k: K, v: V) {
            assert!(self.len < CAP, "model capacity exceeded");
            let n = self.len;
            self.put(n, Some((k, v)));
            self.len += 1;
        }
        fn swap_remove_index(&mut self, i: usize) -> (K, V) {
            let last = self.len - 1;
            let removed = self.take(i);
            if i != last {
                let l = self.take(last);
                self.put(i, Some(l));
            }
            self.len = last;
            removed
        }
        pub fn shrink_to_fit(&mut self) {}
        pub fn keys(&self) -> Keys<'_, K, V> {
            Keys { s: self.slots(), from: 0, to: self.len }
        }
        pub fn iter(&self) -> Iter<'_, K, V> {
            Iter { s: self.slots(), from: 0, to: self.len }
        }
        /// indexmap: `Some` iff `start <= end <= len`.
        pub fn get_range(&self, r: Range<usize>) -> Option<Slice<'_, K, V>> {
            if r.start <= r.end && r.end <= self.len {
                Some(Slice { s: self.slots(), from: r.start, to: r.end })
            } else {
                None
            }
        }
        pub fn get_index(&self, i: usize) -> Option<(&K, &V)> {
            if i < self.len {
                let e = self.at(i);
                Some((&e.0, &e.1))
            } else {
                None
            }
        }
        /// order-preserving, visits every element once, in order.
        pub fn retain<F: FnMut(&K, &mut V) -> bool>(&mut self, mut f: F) {
            let n = self.len;
            let mut w = 0;
            let mut r = 0;
            while r < CAP {
                if r >= n {
                    break;
                }
                let mut e = self.take(r);
                if f(&e.0, &mut e.1) {
                    self.put(w, Some(e));
                    w += 1;
                } else {
                    drop(e);
                }
                r += 1;
            }
            self.len = w;
        }
        pub fn clear(&mut self) {
            self.retain(|_, _| false);
        }
        pub fn values(&self) -> impl Iterator<Item = &V> {
            self.iter().map(|e| e.1)
        }
        /// compile-only (statistics worker; not on any verified path): insertion sort
        pub fn sort_unstable_by<F: FnMut(&K, &V, &K, &V) -> std::cmp::Ordering>(&mut self, mut f: F) {
            let mut i = 1;
            while i < CAP {
                if i >= self.len {
                    break;
                }
                let mut j = i;
                while j > 0 {
                    let swap = {
                        let a = self.at(j - 1);
                        let b = self.at(j);
                        f(&a.0, &a.1, &b.0, &b.1) == std::cmp::Ordering::Greater
                    };
                    if !swap {
                        break;
                    }
                    self.entries.get_mut().swap(j - 1, j);
                    j -= 1;
                }
                i += 1;
            }
        }
    }

    pub struct IntoIter<K, V> {
        m: IndexMap<K, V>,
        from: usize,
    }
    impl<K, V> Iterator for IntoIter<K, V> {
        type Item = (K, V);
        fn next(&mut self) -> Option<(K, V)> {
            if self.from >= CAP || self.from >= self.m.len {
                return None;
            }
            let r = self.m.take(self.from);
            self.from += 1;
            Some(r)
        }
    }
    impl<K, V> IntoIterator for IndexMap<K, V> {
        type Item = (K, V);
        type IntoIter = IntoIter<K, V>;
        fn into_iter(self) -> IntoIter<K, V> {
            IntoIter { m: self, from: 0 }
        }
    }

    impl<K: Eq, V> IndexMap<K, V> {
        pub fn position(&self, k: &K) -> Option<usize> {
            let mut i = 0;
            while i < CAP {
                if i >= self.len {
                    break;
                }
                if self.at(i).0 == *k {
                    return Some(i);
                }
                i += 1;
            }
            None
        }
        pub fn contains_key(&self, k: &K) -> bool {
            self.position(k).is_some()
        }
        pub fn get(&self, k: &K) -> Option<&V> {
            match self.position(k) {
                Some(i) => Some(&self.at(i).1),
                None => None,
            }
        }
        pub fn get_mut(&mut self, k: &K) -> Option<&mut V> {
            match self.position(k) {
                Some(i) => Some(&mut self.at_mut(i).1),
                None => None,
            }
        }
        /// indexmap: replaces the value in place (position kept) or appends.
        pub fn insert(&mut self, k: K, v: V) -> Option<V> {
            match self.position(&k) {
                Some(i) => {
                    let slot: *mut V = &mut self.at_mut(i).1;
                    let old = unsafe { std::ptr::read(slot) };
                    unsafe { std::ptr::write(slot, v) };
                    Some(old)
                }
                None => {
                    self.push_unchecked(k, v);
                    None
                }
            }
        }
        /// indexmap: the last element takes the place of the removed one.
        pub fn swap_remove(&mut self, k: &K) -> Option<V> {
            match self.position(k) {
                Some(i) => Some(self.swap_remove_index(i).1),
                None => None,
            }
        }
        pub fn remove(&mut self, k: &K) -> Option<V> {
            self.swap_remove(k)
        }
        pub fn entry(&mut self, k: K) -> Entry<'_, K, V> {
            match self.position(&k) {
                Some(i) => Entry::Occupied(OccupiedEntry { map: self, i }),
                None => Entry::Vacant(VacantEntry { map: self, k }),
            }
        }
    }

    impl<K: Eq, V> FromIterator<(K, V)> for IndexMap<K, V> {
        fn from_iter<T: IntoIterator<Item = (K, V)>>(it: T) -> Self {
            let mut m = Self::default();
            for (k, v) in it {
                m.insert(k, v);
            }
            m
        }
    }

    impl<'a, K, V> IntoIterator for &'a IndexMap<K, V> {
        type Item = (&'a K, &'a V);
        type IntoIter = Iter<'a, K, V>;
        fn into_iter(self) -> Iter<'a, K, V> {
            self.iter()
        }
    }

    pub struct Keys<'a, K, V> {
        s: &'a [Option<(K, V)>; CAP],
        from: usize,
        to: usize,
    }
    impl<'a, K, V> Iterator for Keys<'a, K, V> {
        type Item = &'a K;
        fn next(&mut self) -> Option<&'a K> {
            // `from >= CAP` is concrete during symbolic execution and ends consumer loops
            if self.from >= CAP || self.from >= self.to {
                return None;
            }
            let r = match &self.s[self.from] {
                Some(e) => &e.0,
                None => unreachable!(),
            };
            self.from += 1;
            Some(r)
        }
        fn size_hint(&self) -> (usize, Option<usize>) {
            let n = self.to - self.from;
            (n, Some(n))
        }
    }
    pub struct Iter<'a, K, V> {
        s: &'a [Option<(K, V)>; CAP],
        from: usize,
        to: usize,
    }
    impl<'a, K, V> Iterator for Iter<'a, K, V> {
        type Item = (&'a K, &'a V);
        fn next(&mut self) -> Option<(&'a K, &'a V)> {
            if self.from >= CAP || self.from >= self.to {
                return None;
            }
            let r = match &self.s[self.from] {
                Some(e) => (&e.0, &e.1),
                None => unreachable!(),
            };
            self.from += 1;
            Some(r)
        }
        fn size_hint(&self) -> (usize, Option<usize>) {
            let n = self.to - self.from;
            (n, Some(n))
        }
    }

    pub struct Slice<'a, K, V> {
        s: &'a [Option<(K, V)>; CAP],
        from: usize,
        to: usize,
    }
    impl<'a, K, V> Slice<'a, K, V> {
        pub fn keys(&self) -> Keys<'a, K, V> {
            Keys { s: self.s, from: self.from, to: self.to }
        }
        pub fn iter(&self) -> Iter<'a, K, V> {
            Iter { s: self.s, from: self.from, to: self.to }
        }
        pub fn len(&self) -> usize {
            self.to - self.from
        }
    }

    pub enum Entry<'a, K, V> {
        Occupied(OccupiedEntry<'a, K, V>),
        Vacant(VacantEntry<'a, K, V>),
    }
    pub struct OccupiedEntry<'a, K, V> {
        map: &'a mut IndexMap<K, V>,
        i: usize,
    }
    pub struct VacantEntry<'a, K, V> {
        map: &'a mut IndexMap<K, V>,
        k: K,
    }
    impl<'a, K: Eq, V> Entry<'a, K, V> {
        pub fn or_default(self) -> &'a mut V
        where
            V: Default,
        {
            match self {
                Entry::Occupied(o) => o.into_mut(),
                Entry::Vacant(v) => v.insert(V::default()),
            }
        }
        pub fn or_insert(self, v: V) -> &'a mut V {
            match self {
                Entry::Occupied(o) => o.into_mut(),
                Entry::Vacant(e) => e.insert(v),
            }
        }
        pub fn or_insert_with<F: FnOnce() -> V>(self, f: F) -> &'a mut V {
            match self {
                Entry::Occupied(o) => o.into_mut(),
                Entry::Vacant(v) => v.insert(f()),
            }
        }
    }
    impl<'a, K: Eq, V> OccupiedEntry<'a, K, V> {
        pub fn get(&self) -> &V {
            &self.map.at(self.i).1
        }
        pub fn get_mut(&mut self) -> &mut V {
            &mut self.map.at_mut(self.i).1
        }
        pub fn into_mut(self) -> &'a mut V {
            &mut self.map.at_mut(self.i).1
        }
        pub fn swap_remove(self) -> V {
            self.map.swap_remove_index(self.i).1
        }
        pub fn remove(self) -> V {
            self.swap_remove()
        }
    }
    impl<'a, K: Eq, V> VacantEntry<'a, K, V> {
        pub fn insert(self, v: V) -> &'a mut V {
            self.map.push_unchecked(self.k, v);
            let n = self.map.len;
            &mut self.map.at_mut(n - 1).1
        }
    }

    // --- trait impls needed to compile derives on types that contain the map (ws ScrapeResponse)
    impl<K: PartialEq, V: PartialEq> PartialEq for IndexMap<K, V> {
        fn eq(&self, o: &Self) -> bool {
            if self.len != o.len {
                return false;
            }
            let mut i = 0;
            while i < CAP {
                if i >= self.len {
                    break;
                }
                if self.at(i) != o.at(i) {
                    return false;
                }
                i += 1;
            }
            true
        }
    }
    impl<K: Eq, V: Eq> Eq for IndexMap<K, V> {}
    impl<K: serde::Serialize, V: serde::Serialize> serde::Serialize for IndexMap<K, V> {
        fn serialize<S: serde::Serializer>(&self, s: S) -> Result<S::Ok, S::Error> {
            use serde::ser::SerializeMap;
            let mut m = s.serialize_map(Some(self.len))?;
            for (k, v) in self.iter() {
                m.serialize_entry(k, v)?;
            }
            m.end()
        }
    }
    impl<'de, K: serde::Deserialize<'de> + Eq, V: serde::Deserialize<'de>> serde::Deserialize<'de> for IndexMap<K, V> {
        fn deserialize<D: serde::Deserializer<'de>>(d: D) -> Result<Self, D::Error> {
            struct Vis<K, V>(std::marker::PhantomData<(K, V)>);
            impl<'de, K: serde::Deserialize<'de> + Eq, V: serde::Deserialize<'de>> serde::de::Visitor<'de> for Vis<K, V> {
                type Value = IndexMap<K, V>;
                fn expecting(&self, f: &mut std::fmt::Formatter) -> std::fmt::Result {
                    f.write_str("map")
                }
                fn visit_map<A: serde::de::MapAccess<'de>>(self, mut a: A) -> Result<Self::Value, A::Error> {
                    let mut m = IndexMap::default();
                    while let Some((k, v)) = a.next_entry()? {
                        m.insert(k, v);
                    }
                    Ok(m)
                }
            }
            d.deserialize_map(Vis(std::marker::PhantomData))
        }
    }

    /// hashbrown::HashSet model.
    #[derive(Clone, Debug)]
    pub struct HashSet<T> {
        pub items: [Option<T>; CAP],
        pub len: usize,
    }
    impl<T> Default for HashSet<T> {
        fn default() -> Self {
            Self { items: [const { None }; CAP], len: 0 }
        }
    }
    impl<T: Eq> HashSet<T> {
        pub fn insert(&mut self, t: T) -> bool {
            if self.contains(&t) {
                false
            } else {
                assert!(self.len < CAP, "model capacity exceeded");
                self.items[self.len] = Some(t);
                self.len += 1;
                true
            }
        }
        pub fn contains(&self, t: &T) -> bool {
            let mut i = 0;
            while i < CAP {
                if i >= self.len {
                    break;
                }
                match &self.items[i] {
                    Some(x) => {
                        if *x == *t {
                            return true;
                        }
                    }
                    None => unreachable!(),
                }
                i += 1;
            }
            false
        }
        pub fn len(&self) -> usize {
            self.len
        }
        pub fn is_empty(&self) -> bool {
            self.len == 0
        }
    }
}

// ------------------------------------------------------------------ arc-swap

#[cfg(not(kani))]
pub use ::arc_swap::{ArcSwap, Cache};
#[cfg(kani)]
pub use arcswap_model::{ArcSwap, Cache};

#[cfg(kani)]
pub mod arcswap_model {
    use std::cell::RefCell;
    use std::sync::Arc;

    /// arc-swap contract relied on: a `load` after a `store` returns the stored value.
    pub struct ArcSwap<T>(RefCell<Arc<T>>);
    // single-threaded under Kani
    unsafe impl<T> Sync for ArcSwap<T> {}
    unsafe impl<T> Send for ArcSwap<T> {}

    impl<T> ArcSwap<T> {
        pub fn new(v: Arc<T>) -> Self {
            Self(RefCell::new(v))
        }
        pub fn from_pointee(v: T) -> Self {
            Self::new(Arc::new(v))
        }
        pub fn store(&self, v: Arc<T>) {
            *self.0.borrow_mut() = v;
        }
        pub fn load(&self) -> Arc<T> {
            self.0.borrow().clone()
        }
        pub fn load_full(&self) -> Arc<T> {
            self.load()
        }
    }
    impl<T: Default> Default for ArcSwap<T> {
        fn default() -> Self {
            Self::new(Arc::new(T::default()))
        }
    }

    /// `Cache<Arc<ArcSwap<U>>, Arc<U>>`: `load` revalidates against the shared value.
    pub struct Cache<A, T> {
        src: A,
        cached: T,
    }
    impl<U> Cache<Arc<ArcSwap<U>>, Arc<U>> {
        pub fn new(src: Arc<ArcSwap<U>>) -> Self {
            let cached = src.load();
            Self { src, cached }
        }
        pub fn load(&mut self) -> &Arc<U> {
            self.cached = self.src.load();
            &self.cached
        }
    }
    impl<U> From<Arc<ArcSwap<U>>> for Cache<Arc<ArcSwap<U>>, Arc<U>> {
        fn from(src: Arc<ArcSwap<U>>) -> Self {
            Self::new(src)
        }
    }
}

// ------------------------------------------------------------------ clock

/// `Some(x)`: `ServerStartInstant::seconds_elapsed` returns `x` (a whole-second counter chosen by
/// the harness; `x == None` models the monotonicity error). `None`: real clock.
#[cfg(kani)]
static mut MOCK_NOW: Option<Option<u32>> = None;

#[cfg(kani)]
pub fn set_mock_clock(v: Option<u32>) {
    unsafe { MOCK_NOW = Some(v) }
}
#[cfg(kani)]
pub fn mock_clock_now() -> Option<Option<u32>> {
    unsafe { MOCK_NOW }
}
#[cfg(kani)]
pub fn mock_clock_instant() -> Option<std::time::Instant> {
    // Instant::now() is a foreign call Kani cannot model; the value is never read when the
    // mock clock is installed.
    Some(unsafe { std::mem::zeroed() })
}
#[cfg(not(kani))]
pub fn mock_clock_now() -> Option<Option<u32>> {
    None
}
#[cfg(not(kani))]
pub fn mock_clock_instant() -> Option<std::time::Instant> {
    None
}
