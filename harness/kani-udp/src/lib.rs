//! Kani proof wrappers over the real `aquatic_udp` crate (bodies are mounted inside the crate's
//! own modules so that they can reach private items; see /verif/harness/in_udp_*.rs).
#![allow(dead_code)]
#[cfg(kani)]
mod c01;

#[cfg(kani)]
pub fn backtrace_stub() -> std::backtrace::Backtrace {
    std::backtrace::Backtrace::disabled()
}
#[cfg(kani)]
mod c05;
