#!/bin/bash
# Offline setup: pre-build every harness crate's Kani goto binaries from /repo's current tree.
set -u
cd "$(dirname "$0")"
export CARGO_NET_OFFLINE=true
mkdir -p .targets logs evidence replays
python3 - <<'PY'
import sys, os
sys.path.insert(0, os.getcwd())
from lib import runner, registry
ok = True
for crate in registry.CRATES:
    if registry.CRATES[crate].get("engine", "kani") != "kani":
        continue
    good, secs = runner.build_crate(crate, os.path.join(runner.LOGS, "setup.%s.log" % crate))
    print("setup: %s %s in %.0fs" % (crate, "built" if good else "FAILED", secs))
    ok = ok and good
sys.exit(0 if ok else 1)
PY
