#!/bin/bash
# usage: mut-iso.sh <seeded-id> <check-id> [extra ./check args]
# Runs a check against a seeded change WITHOUT touching /repo: a scratch worktree of /repo's HEAD gets
# seeded/<id>/patch.diff applied and is bind-mounted over /repo inside a private mount namespace; build output,
# logs and replays go to /tmp/mut-* (removed by the caller). Exit status = the check's.
set -u
ID=$1; CHK=$2; shift 2
WT=/tmp/mutwt/$ID
mkdir -p /tmp/mutwt /tmp/mut-logs/$ID /tmp/mut-replays
git -C /repo worktree remove --force $WT 2>/dev/null
git -C /repo worktree add --detach -q $WT HEAD || exit 3
git -C $WT apply /verif/seeded/$ID/patch.diff || { echo "patch does not apply"; git -C /repo worktree remove --force $WT; exit 3; }
unshare -m bash -c "mount --bind $WT /repo && cd /verif && VERIF_TARGETS=/tmp/mut-targets VERIF_LOGS=/tmp/mut-logs/$ID VERIF_REPLAYS=/tmp/mut-replays VERIF_TOTAL_GB=\${VERIF_TOTAL_GB:-28} ./check $CHK --no-evidence $*"
RC=$?
git -C /repo worktree remove --force $WT
echo "mut-iso $ID vs $CHK $*: exit $RC"
exit $RC
