//! C12 (UDP part): arbitrary bytes never panic the client-side reply parser.
//! The request parser on arbitrary datagrams is covered by `c13_request_decode_*`.
use aquatic_udp_protocol::*;

fn lossy_stub(_v: &[u8]) -> std::borrow::Cow<'_, str> {
    std::borrow::Cow::Borrowed("")
}

/// Every byte string of exactly N bytes (lengths are case-split: a symbolic length makes the
/// `Vec::from(slice)` copies intractable for CBMC), both family flags.
fn response_any<const N: usize>() {
    let buf: [u8; N] = kani::any();
    let ipv4: bool = kani::any();
    let r = Response::parse_bytes(&buf[..], ipv4);
    match &r {
        Ok(Response::AnnounceIpv4(a)) => {
            assert!(ipv4, "v4 announce reply parsed with the v6 flag");
            assert!(a.peers.len() * 6 + 20 == N, "v4 announce reply length relation");
        }
        Ok(Response::AnnounceIpv6(a)) => {
            assert!(!ipv4, "v6 announce reply parsed with the v4 flag");
            assert!(a.peers.len() * 18 + 20 == N, "v6 announce reply length relation");
        }
        Ok(Response::Scrape(s)) => assert!(s.torrent_stats.len() * 12 + 8 == N, "scrape reply length relation"),
        Ok(Response::Connect(_)) => assert!(N == 16, "connect reply length"),
        Ok(Response::Error(_)) => assert!(N >= 8, "error reply length"),
        Err(_) => {}
    }
    kani::cover!(r.is_err() || N < 8, "reject reachable");
    kani::cover!(r.is_ok() || N < 8, "accept reachable");
    std::mem::forget(r);
}

macro_rules! anyb {
    ($name:ident, $n:literal) => {
        #[kani::proof]
        #[kani::unwind(9)]
        #[kani::stub(std::string::String::from_utf8_lossy, lossy_stub)]
        fn $name() {
            response_any::<$n>();
        }
    };
}
anyb!(c12_udp_response_any_0, 0);
anyb!(c12_udp_response_any_3, 3);
anyb!(c12_udp_response_any_8, 8);
anyb!(c12_udp_response_any_16, 16);
anyb!(c12_udp_response_any_20, 20);
anyb!(c12_udp_response_any_26, 26);
anyb!(c12_udp_response_any_27, 27);
anyb!(c12_udp_response_any_38, 38);
anyb!(c12_udp_response_any_56, 56);

#[cfg(verif_pb_c12)]
include!(env!("VERIF_PLAYBACK_FILE"));
