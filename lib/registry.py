"""Registry: which solver queries decide which property, at which tier, with which bound."""

GUARD = "--cfg greatest_ape_aquatic_verif"
CRATES = {
    "kani-udp-proto": {"kani_args": ["-Z", "stubbing"]},
    "kani-common": {"kani_args": ["-Z", "stubbing"], "rustflags": GUARD},
    "kani-ws-proto": {"kani_args": ["-Z", "stubbing"]},
    "kani-http-proto": {"kani_args": ["-Z", "stubbing"], "rustflags": GUARD},
    "kani-http": {"kani_args": ["-Z", "stubbing", "-Z", "unstable-options"], "rustflags": GUARD, "cbmc_args": ["--unwindset", "memcmp.0:22"]},
    "kani-ws8": {"dir": "kani-ws", "kani_args": ["-Z", "stubbing", "-Z", "unstable-options"], "rustflags": GUARD, "cbmc_args": ["--unwindset", "memcmp.0:22"]},
    "kani-ws": {"kani_args": ["-Z", "stubbing", "-Z", "unstable-options"], "rustflags": GUARD + " --cfg verif_cap4 --cfg verif_cap2", "cbmc_args": ["--unwindset", "memcmp.0:22"]},
    "kani-udp": {"kani_args": ["-Z", "stubbing", "-Z", "unstable-options"], "rustflags": GUARD,
                 "cbmc_args": ["--unwindset", "memcmp.0:22"]},
}


def H(crate, name, claim, bound, functions=(), tier="quick", cost=10, **kw):
    d = {"crate": crate, "name": name, "claim": claim, "bound": bound, "functions": list(functions), "tier": tier, "cost": cost}
    d.update(kw)
    return d


UP = "kani-udp-proto"
KC = "kani-common"
KU = "kani-udp"
KWP = "kani-ws-proto"
KHP = "kani-http-proto"
KH = "kani-http"
KW = "kani-ws"
KW8 = "kani-ws8"

PROPS = {}

PROPS["C13"] = {
    "level": "model_checking",
    "functions": [
        "aquatic_udp_protocol::Request::{parse_bytes,write_bytes}", "ConnectRequest::write_bytes", "AnnounceRequest::write_bytes",
        "ScrapeRequest::write_bytes", "Response::{parse_bytes,write_bytes}", "ConnectResponse::write_bytes",
        "AnnounceResponse<Ipv4AddrBytes|Ipv6AddrBytes>::write_bytes", "ScrapeResponse::write_bytes", "ErrorResponse::write_bytes",
        "zerocopy TryFromBytes/IntoBytes derives for the packed structs",
    ],
    "bounds": "request datagrams <=120 B quick / <=256 B thorough (all lengths, all byte values, all u8 max_scrape_torrents); "
              "encoders: all field values, 4 events, 1..3 scrape hashes, 0..3 reply peers per family, 0..3 scrape entries",
    "outside": "messages longer than the stated sizes; error replies with arbitrary text (two fixed texts encoded)",
    "models": [],
    "assumptions": ["Kani models the dev profile (overflow checks on)", "memory allocation never fails",
                    "oracle = BEP 15 offset table in harness/kani-udp-proto/src/oracle.rs"],
    "harnesses": [
        H(UP, "c13::c13_connect_request_encode", "connect request bytes == BEP15 layout", "all transaction ids", ["ConnectRequest::write_bytes"]),
        H(UP, "c13::c13_announce_request_encode", "announce request: every field at its BEP15 offset, big endian, 98 bytes", "all field values x 4 events", ["AnnounceRequest::write_bytes"]),
        H(UP, "c13::c13_scrape_request_encode_n1", "scrape request bytes == BEP15 layout; parses back equal", "1 hash", ["ScrapeRequest::write_bytes", "Request::parse_bytes"]),
        H(UP, "c13::c13_scrape_request_encode_n3", "scrape request bytes == BEP15 layout; parses back equal", "3 hashes", ["ScrapeRequest::write_bytes", "Request::parse_bytes"]),
        H(UP, "c13::c13_request_decode_120", "parser accepts exactly what the BEP15 oracle accepts; fields == bytes at BEP15 offsets; sendable errors carry the right ids; scrape cut to first max hashes", "every datagram of 0..120 bytes, every max_scrape_torrents", ["Request::parse_bytes"], cost=100),
        H(UP, "c13::c13_request_decode_256", "same as c13_request_decode_120", "every datagram of 0..256 bytes", ["Request::parse_bytes"], tier="thorough", cost=400),
        H(UP, "c13::c13_connect_response_encode_decode", "connect reply bytes == BEP15; parses back", "all ids", ["ConnectResponse::write_bytes", "Response::parse_bytes"]),
        H(UP, "c13::c13_announce_response_v4_n0", "announce reply v4: 20+6n bytes == BEP15; parses back equal", "0 peers, all values", ["AnnounceResponse::write_bytes", "Response::parse_bytes"]),
        H(UP, "c13::c13_announce_response_v4_n1", "announce reply v4: 20+6n bytes == BEP15; parses back equal", "1 peers, all values", ["AnnounceResponse::write_bytes", "Response::parse_bytes"]),
        H(UP, "c13::c13_announce_response_v4_n3", "announce reply v4: 20+6n bytes == BEP15; parses back equal", "3 peers, all values", ["AnnounceResponse::write_bytes", "Response::parse_bytes"]),
        H(UP, "c13::c13_announce_response_v6_n0", "announce reply v6: 20+18n bytes == BEP15; parses back equal", "0 peers, all values", ["AnnounceResponse::write_bytes", "Response::parse_bytes"]),
        H(UP, "c13::c13_announce_response_v6_n1", "announce reply v6: 20+18n bytes == BEP15; parses back equal", "1 peers, all values", ["AnnounceResponse::write_bytes", "Response::parse_bytes"]),
        H(UP, "c13::c13_announce_response_v6_n3", "announce reply v6: 20+18n bytes == BEP15; parses back equal", "3 peers, all values", ["AnnounceResponse::write_bytes", "Response::parse_bytes"]),
        H(UP, "c13::c13_scrape_response_n0", "scrape reply: 8+12n bytes == BEP15 (seeders, completed, leechers); parses back equal", "0 entries", ["ScrapeResponse::write_bytes", "Response::parse_bytes"]),
        H(UP, "c13::c13_scrape_response_n1", "scrape reply: 8+12n bytes == BEP15 (seeders, completed, leechers); parses back equal", "1 entries", ["ScrapeResponse::write_bytes", "Response::parse_bytes"]),
        H(UP, "c13::c13_scrape_response_n3", "scrape reply: 8+12n bytes == BEP15 (seeders, completed, leechers); parses back equal", "3 entries", ["ScrapeResponse::write_bytes", "Response::parse_bytes"]),
        H(UP, "c13::c13_error_response_encode_a", "error reply: action 3, transaction id, message bytes", "one fixed message, all ids", ["ErrorResponse::write_bytes"]),
        H(UP, "c13::c13_error_response_encode_b", "error reply: action 3, transaction id, message bytes", "one fixed message, all ids", ["ErrorResponse::write_bytes"]),
    ],
}

PROPS["C03"] = {
    "level": "model_checking",
    "functions": ["aquatic_common::CanonicalSocketAddr::{new,get,get_ipv4,get_ipv6_mapped,is_ipv4}", "aquatic_ws::common::IpVersion::canonical_from_ip"],
    "bounds": "all 2^48 IPv4 socket addresses; all IPv6 socket addresses (16 octets, port, flowinfo, scope id) - full width, no size bound",
    "outside": "socket syscalls (recv_from / peer_addr) that produce the SocketAddr; glommio connection.rs glue (which of TCP peer / header value is used is decided there); the HTTP reverse-proxy header parser (parse_forwarded_header: harness c03_forwarded_* over the real parse_request exists in harness/kani-http/src/c03.rs but did not reach a verdict within 25 min when measured, so it is NOT registered and nothing is claimed); 'in-request address fields never influence the key' is asserted in C01/C07 (announcer stored under (ip argument, request port))",
    "models": [],
    "assumptions": ["Kani models the dev profile (overflow checks on)"],
    "harnesses": [
        H(KC, "c03::c03_canonical_v4_identity", "IPv4 source stored unchanged; its v4-mapped v6 form canonicalises to the same peer", "all IPv4 addr+port", ["CanonicalSocketAddr::new", "get_ipv6_mapped"]),
        H(KW8, "c03::c03_ws_canonical_family", "WebTorrent: IpVersion::canonical_from_ip - IPv4-mapped IPv6 source is family V4, other IPv6 V6, IPv4 V4", "all addresses, full width", ["aquatic_ws::common::IpVersion::canonical_from_ip"], cost=20),
        H(KC, "c03::c03_canonical_v6_total", "v6 source becomes v4 exactly when it is ::ffff:a.b.c.d, with embedded octets and port; otherwise unchanged", "all IPv6 addr+port+flow+scope", ["CanonicalSocketAddr::new"]),
    ],
}

PROPS["C10"] = {
    "level": "model_checking",
    "functions": ["aquatic_common::ValidUntil::{new,new_with_now,new_raw,valid}", "ServerStartInstant::seconds_elapsed (mock clock hook)"],
    "bounds": "all u32 now / age / check time with now+age <= u32::MAX (the overflow region is outside)",
    "outside": "now+age > u32::MAX (debug panic / release wrap); how often workers sample the clock",
    "models": ["ServerStartInstant::seconds_elapsed -> harness-chosen whole second or monotonicity error (hook in crates/common/src/lib.rs)"],
    "assumptions": ["the tracker clock is a whole-second counter"],
    "harnesses": [
        H(KC, "c10::c10_valid_until_kernel", "valid(t) <=> now+age > t; valid at deadline-1, expired at deadline", "all u32 triples without overflow", ["ValidUntil::new_with_now", "ValidUntil::valid"]),
        H(KC, "c10::c10_valid_until_raw", "valid(t) <=> deadline > t", "all u32 pairs", ["ValidUntil::new_raw", "ValidUntil::valid"]),
        H(KC, "c10::c10_valid_until_from_clock", "ValidUntil::new = clock sample + age; None exactly on clock error", "all u32", ["ValidUntil::new"]),
    ],
}

PROPS["C11"] = {
    "level": "model_checking",
    "functions": ["aquatic_common::access_list::{parse_info_hash, AccessList::allows, AccessListQuery::{update,allows}, update_access_list, create_access_list_cache}", "hex::decode_to_slice"],
    "bounds": "lines of 0..42 bytes (ASCII any bytes; or one 2-byte UTF-8 char anywhere); lists of 0..2 hashes; all three modes",
    "outside": "file reading / line splitting in create_from_path (stubbed to an arbitrary Result); SIGUSR1 delivery; real arc-swap internals; HTTP/WS announce gates (glommio files)",
    "models": ["hashbrown::HashSet -> Vec model", "arc_swap::{ArcSwap,Cache} -> RefCell<Arc<T>> model (load after store returns stored value)",
               "std::backtrace::Backtrace::capture -> disabled()", "AccessList::create_from_path -> arbitrary Ok(list)/Err"],
    "assumptions": ["container models behave as documented for the real crates"],
    "harnesses": [
        H(KC, "c11::c11_parse_info_hash_ascii", "Ok(v) <=> exactly 40 hex digits of either case, v = reference decoding", "all ASCII byte strings of 0..42 bytes", ["parse_info_hash"], cost=60),
        H(KC, "c11::c11_parse_info_hash_non_ascii", "any line containing a non-ASCII char is rejected", "lines <=42 bytes with one 2-byte UTF-8 char at any position", ["parse_info_hash"], cost=60),
        H(KC, "c11::c11_allows_truth_table_n0", "allows == set semantics for 3 modes via list, ArcSwap and cache", "empty list", ["AccessList::allows"]),
        H(KC, "c11::c11_allows_truth_table_n1", "allows == set semantics", "1 symbolic hash", ["AccessList::allows"]),
        H(KC, "c11::c11_allows_truth_table_n2", "allows == set semantics", "2 symbolic hashes", ["AccessList::allows"]),
        H(KC, "c11::c11_update_keeps_old_on_error", "failed reload keeps the same Arc and returns Err; successful reload switches list and caches follow", "1-entry lists, all modes", ["update_access_list", "AccessListQuery::update"]),
    ],
}

_C01_FUNCS = ["aquatic_udp::swarm::PeerMap::{announce,scrape_statistics,is_empty}", "SmallPeerMap::{remove,insert,num_seeders_leechers,extract_response_peers,is_full,to_large}",
              "LargePeerMap::{remove_peer,insert,num_seeders_leechers,extract_response_peers,try_shrink}", "PeerStatus::from_event_and_bytes_left",
              "rand SmallRng (xoshiro256++) + UniformInt sampling, real code with arbitrary generator state"]
_ANN = ("one PeerMap::announce from an arbitrary state of exactly N distinct-key peers (invariant assumed): reply counts == reference over others; "
        "post-state == reference (announcer stored once with left==0<=>seeder, new peer id, fresh deadline, or removed on stop; all others untouched; cached seeder count consistent); "
        "scrape counts == stored; reply list <= min(numwant,max) (non-positive => max), all others when they fit else >= limit-1, distinct, members, never the requester")
PROPS["C01"] = {
    "level": "model_checking",
    "functions": _C01_FUNCS,
    "bounds": "pre-states of N = 0..4 peers quick (0,1,2 inline; 3,4 heap), N=5 and IPv6 instantiation thorough; one step from ANY invariant-satisfying state (inductive step, covers histories of any length within the size bound); "
              "all request fields full width; max_response_peers 0..8; every RNG state",
    "outside": "> 5 peers per torrent; real indexmap code (modelled); torrent-level maps and locks (see C04)",
    "models": ["aquatic_common::IndexMap -> array-backed insertion-ordered model with swap_remove semantics (shims/common_shims.rs)",
               "crossbeam_channel::Sender::try_send -> log (statistics channel)"],
    "assumptions": ["Kani models the dev profile (overflow checks on)", "memory allocation never fails", "indexmap behaves as documented (insertion order, swap_remove)"],
    "harnesses": [
        H(KU, "c01::c01_announce_v4_small_n0", _ANN, "N=0 inline, IPv4", _C01_FUNCS[:2], cost=30),
        H(KU, "c01::c01_announce_v4_small_n1", _ANN, "N=1 inline, IPv4", _C01_FUNCS[:2], cost=60),
        H(KU, "c01::c01_announce_v4_small_n2", _ANN, "N=2 inline (crosses inline->heap), IPv4", _C01_FUNCS[:3], cost=200),
        H(KU, "c01::c01_announce_v4_large_n3_state", _ANN + " [counts + post-state groups]", "N=3 heap (crosses heap->inline on stop), IPv4", _C01_FUNCS, cost=350),
        H(KU, "c01::c01_announce_v4_large_n3_reply", _ANN + " [reply-list group]", "N=3 heap, IPv4", _C01_FUNCS, tier="thorough", cost=900, mem_gb=40, timeout=3000),
        H(KU, "c01::c01_announce_v4_large_n4_state", _ANN + " [counts + post-state groups]", "N=4 heap, IPv4", _C01_FUNCS, tier="thorough", cost=700, mem_gb=30, timeout=3000),
        H(KU, "c01::c01_announce_v4_large_n5_state", _ANN + " [counts + post-state groups]", "N=5 heap, IPv4", _C01_FUNCS, tier="thorough", cost=900, mem_gb=40, timeout=3600),
        H(KU, "c01::c01_announce_v6_small_n2", _ANN, "N=2 inline, IPv6", _C01_FUNCS[:3], tier="thorough", cost=300),
        H(KU, "c01::c01_announce_v6_large_n3_state", _ANN + " [counts + post-state groups]", "N=3 heap, IPv6", _C01_FUNCS, tier="thorough", cost=400, mem_gb=30),
    ],
}

PROPS["C15"] = {
    "level": "model_checking",
    "functions": ["aquatic_ws_protocol::common::{serialize_20_bytes, TwentyByteVisitor::visit_str, deserialize_20_bytes}",
                  "serde derive(transparent) glue of InfoHash / PeerId / OfferId", "serde::de::value::StrDeserializer"],
    "bounds": "encode: identifiers whose bytes are all < 0x80, all >= 0x80, or 4 arbitrary + 16 fixed bytes (a fully mixed 20-byte identifier does not finish: symbolic write offsets); decode: strings of exactly 0, 1, 19, 20, 21, 22 chars, each char any of U+0000..U+FFFF (1-, 2- or 3-byte UTF-8, surrogates excluded)",
    "outside": "whole-message JSON round-trips: the simd-json reader (runtime-dispatched SIMD kernels) is not encodable, and the stand-in harnesses c15m_* (real serde_json writer + serde_json reader, harness/kani-ws-proto/src/c15m.rs) did not reach a verdict within 10-20 min per message shape when measured, so they are NOT registered; strings of 2..18 or > 22 chars; chars above U+FFFF",
    "models": ["alloc::fmt::format -> empty String (error message text is not the subject)"],
    "assumptions": ["the JSON reader hands the visitor the decoded string via visit_str (simd-json and serde_json both do for strings)"],
    "harnesses": [
        H(KWP, "c15::c15_id_encode_ascii", "text == 20 chars, char i == U+00<byte i> (reference UTF-8), for InfoHash/PeerId/OfferId", "all identifiers with every byte < 0x80", ["serialize_20_bytes"], cost=100),
        H(KWP, "c15::c15_id_encode_high", "text == 20 chars, char i == U+00<byte i>", "all identifiers with every byte >= 0x80", ["serialize_20_bytes"], cost=100),
        H(KWP, "c15::c15_id_encode_mixed4", "text == 20 chars, char i == U+00<byte i>", "first four bytes arbitrary, 16 fixed ASCII bytes (mixed 1-/2-byte chars)", ["serialize_20_bytes"], cost=100),
    ] + [
        H(KWP, "c15::c15_id_decode_n%d" % n, "Ok(v) <=> exactly 20 chars all <= U+00FF and v[i]==char i", "%d arbitrary chars" % n, ["TwentyByteVisitor::visit_str"], cost=60)
        for n in (0, 1, 19, 20, 21, 22)
    ],
}

PROPS["C05"] = {
    "level": "model_checking",
    "functions": ["aquatic_udp::workers::socket::validator::ConnectionValidator::{create_connection_id, connection_id_valid}", "constant_time_eq", "CanonicalSocketAddr::new"],
    "bounds": "none on integers: all source addresses of both families (+ports), all u32 issue times, check times and max_connection_age, all i64 ids",
    "outside": "BLAKE3 itself (the keyed hash is an uninterpreted function: deterministic, otherwise unconstrained; unforgeability = 2^-32 is assumed, stated as 'acceptance implies tag equality'); key generation; how often the worker refreshes its clock; io_uring handler",
    "models": ["ConnectionValidator::hash -> memoised uninterpreted function via a guarded hook (same path under Kani and native replay)"],
    "assumptions": ["BLAKE3 keyed hash is a PRF"],
    "harnesses": [
        H(KU, "c05::c05_window", "id issued to ip at t_issue is accepted from ip2 at t_check <=> tag equal (forced iff same ip) and t_issue+max_age > t_check and t_issue <= t_check+60, computed without wrap", "full width", ["create_connection_id", "connection_id_valid"], cost=30),
        H(KU, "c05::c05_forged", "arbitrary id accepted <=> its tag bytes == MAC(its time bytes, source ip) and its time in window", "all i64 ids", ["connection_id_valid"], cost=30),
    ],
}

PROPS["C14"] = {
    "level": "model_checking",
    "functions": ["aquatic_http_protocol::utils::{urlencode_20_bytes, urldecode_20_bytes}", "response::{AnnounceResponse,ScrapeResponse,FailureResponse}::write_bytes", "itoa::Buffer::format", "hex::{encode_to_slice,decode_to_slice}"],
    "bounds": "identifiers: all 2^160 values (encode) / strings of exactly 0,19,20,21 units, each unit a raw ASCII char, a 2-byte char U+0080..U+07FF, or %XY with arbitrary ASCII X,Y (decode); "
              "tails: 19 fixed units + 3 arbitrary ASCII bytes (thorough); replies: (n4,n6) in {(0,0),(2,0),(0,2),(1,1)} compact peers with fixed 1-, 2- and 4-digit counters, 0..1 scrape files, counter formatting for all values < 100000 (thorough), one failure text",
    "outside": "the query-string splitter (memchr over symbolic bytes does not finish; the concrete-layout / symbolic-value harnesses c14q_* in harness/kani-http-proto/src/c14q.rs did not reach a verdict within 25 min per layout when measured and are NOT registered) and request write->parse round trip; counters >= 100000 (itoa digit extraction at full width stalls the bit-blaster); reply parse-back through serde_bencode; "
               "'%'+non-ASCII look-alike hex digits (the code is lenient there; the property does not demand rejection)",
    "models": ["std::backtrace::Backtrace::capture -> disabled()", "alloc::fmt::format -> empty String"],
    "assumptions": ["reference bencode encoder in harness/kani-http-proto/src/bencode_ref.rs"],
    "harnesses": [
        H(KHP, "c14::c14_id_roundtrip", "urlencode = '%xy'*20 lower-case hex; urldecode inverts it", "all identifiers", ["urlencode_20_bytes", "urldecode_20_bytes"], cost=60),
        H(KHP, "c14::c14_urldecode_n0", "Ok(v) <=> exactly 20 well-formed units and v[i] = unit value (reference decoder)", "0 units", ["urldecode_20_bytes"], cost=30),
        H(KHP, "c14::c14_urldecode_n1", "Ok(v) <=> exactly 20 well-formed units ...", "1 arbitrary unit (ASCII | 2-byte char | %XY)", ["urldecode_20_bytes"], tier="thorough", cost=300),
        H(KHP, "c14::c14_urldecode_n3_wide", "Ok(v) <=> exactly 20 well-formed units ...", "3 arbitrary units incl. 2-byte chars", ["urldecode_20_bytes"], tier="thorough", cost=400),
        H(KHP, "c14::c14_urldecode_one_free_front", "19 fixed raw units + one arbitrary unit in front: Ok <=> the unit is well-formed, value == reference", "one arbitrary unit (ASCII | 2-byte char | %XY)", ["urldecode_20_bytes"], cost=120),
        H(KHP, "c14::c14_urldecode_one_free_back", "19 fixed raw units + one arbitrary unit at the end: Ok <=> the unit is well-formed, value == reference", "one arbitrary unit", ["urldecode_20_bytes"], cost=120),
    ] + [
        H(KHP, "c14::c14_urldecode_tail_%d" % t, "19 fixed raw units + a tail of exactly %d arbitrary ASCII bytes (incl. '%%': truncated escapes, stray text): Ok <=> the tail is exactly one well-formed unit, value == reference; never panics" % t, "tail of %d arbitrary ASCII bytes" % t, ["urldecode_20_bytes"], tier="thorough", cost=700, timeout=3000)
        for t in (3,)
    ] + [
        H(KHP, "c14::c14_urldecode_n19", "Ok(v) <=> exactly 20 well-formed units ...", "19 units (ASCII | %XY)", ["urldecode_20_bytes"], tier="thorough", cost=900, timeout=3000),
        H(KHP, "c14::c14_urldecode_n20", "Ok(v) <=> exactly 20 well-formed units ...", "20 units (ASCII | %XY)", ["urldecode_20_bytes"], tier="thorough", cost=1200, timeout=3600),
        H(KHP, "c14::c14_urldecode_n21", "Ok(v) <=> exactly 20 well-formed units ...", "21 units (ASCII | %XY)", ["urldecode_20_bytes"], tier="thorough", cost=1200, timeout=3600),
        H(KHP, "c14::c14_urldecode_n20_wide", "Ok(v) <=> exactly 20 well-formed units ...", "20 units incl. 2-byte chars", ["urldecode_20_bytes"], tier="thorough", cost=1500, timeout=3600),
    ] + [
        H(KHP, "c14::c14_announce_reply_%d_%d" % (a, b), "announce reply bytes == canonical bencode (sorted keys, 6/18-byte compact peers), returned length == bytes written", "%d v4 + %d v6 peers, counters < 1e5" % (a, b), ["AnnounceResponse::write_bytes"], cost=150)
        for (a, b) in ((0, 0), (2, 0), (0, 2), (1, 1))
    ] + [
        H(KHP, "c14::c14_scrape_reply_0", "scrape reply bytes == canonical bencode", "0 files", ["ScrapeResponse::write_bytes"], cost=30),
        H(KHP, "c14::c14_scrape_reply_1", "scrape reply bytes == canonical bencode (std BTreeMap under CBMC is expensive)", "1 file", ["ScrapeResponse::write_bytes"], tier="thorough", cost=600, mem_gb=40, timeout=3000),
    ] + [
        H(KHP, "c14::c14_counter_format", "decimal digits of a reply counter == reference formatter", "all counters < 100000", ["AnnounceResponse::write_bytes", "itoa::Buffer::format"], tier="thorough", cost=600, timeout=1800),
        H(KHP, "c14::c14_failure_reply", "failure reply bytes == canonical bencode", "one text", ["FailureResponse::write_bytes"]),
    ],
}

_LEAF = ("SmallPeerMap / LargePeerMap::clean_and_get_num_peers (+ try_shrink, with the 3 lines of dispatch glue of clean_and_get_statistics replicated) on exactly N symbolic peers: "
         "an entry survives <=> deadline > now (C10) whatever the representation and its neighbours, survivors untouched, returned counts == stored, cached seeder count consistent, heap map shrinks when <= 2 remain, emptied map is_empty (C01)")
_LEAF_H = [
    H(KU, "clean::leaf_clean_v4_small_n0", _LEAF, "N=0 inline", ["SmallPeerMap::clean_and_get_num_peers"], cost=20),
    H(KU, "clean::leaf_clean_v4_small_n1", _LEAF, "N=1 inline", ["SmallPeerMap::clean_and_get_num_peers"], cost=30),
    H(KU, "clean::leaf_clean_v4_small_n2", _LEAF, "N=2 inline", ["SmallPeerMap::clean_and_get_num_peers"], cost=40),
    H(KU, "clean::leaf_clean_v4_large_n3", _LEAF, "N=3 heap", ["LargePeerMap::clean_and_get_num_peers", "LargePeerMap::try_shrink"], cost=60),
    H(KU, "clean::leaf_clean_v4_large_n4", _LEAF, "N=4 heap", ["LargePeerMap::clean_and_get_num_peers", "LargePeerMap::try_shrink"], cost=90),
    H(KU, "clean::leaf_clean_v6_large_n3", _LEAF, "N=3 heap, IPv6", ["LargePeerMap::clean_and_get_num_peers"], tier="thorough", cost=90),
]
_LEAFSTAT = _LEAF + "; with client statistics on: exactly one PeerRemoved per expired peer, carrying its peer id (C20)"
_LEAFSTAT_H = [
    H(KU, "clean::leaf_cleanstats_v4_small_n1", _LEAFSTAT, "N=1 inline, peer_clients on", ["SmallPeerMap::clean_and_get_num_peers"], cost=300, mem_gb=30, timeout=2400),
    H(KU, "clean::leaf_cleanstats_v4_large_n3", _LEAFSTAT, "N=3 heap, peer_clients on", ["LargePeerMap::clean_and_get_num_peers"], tier="thorough", cost=900, mem_gb=44, timeout=3600),
]
PROPS["C10"]["harnesses"] += [dict(h) for h in _LEAF_H]
PROPS["C10"]["functions"] += ["aquatic_udp::swarm::{SmallPeerMap::clean_and_get_num_peers, LargePeerMap::{clean_and_get_num_peers,try_shrink}}"]
PROPS["C10"]["bounds"] += "; storage level: udp peer maps of 0..4 peers, http torrents of 0..2 (3 thorough), ws torrents of 0..1 peers and <= 1 pending offer, one cleaning pass from any state, all deadlines and clock values"
PROPS["C01"]["harnesses"] += [dict(h) for h in _LEAF_H[:5]]

_TALLY = ("one PeerMap::announce with client statistics on: for every peer id p, #PeerAdded(p) - #PeerRemoved(p) emitted == change in the number of stored peers carrying p")
PROPS["C20"] = {
    "level": "model_checking",
    "functions": ["aquatic_udp::swarm::{TorrentMaps::clean_and_update_statistics, TorrentMapShards::clean_and_get_statistics, PeerMap::announce (PeerAdded/PeerRemoved), *::clean_and_get_num_peers}"],
    "bounds": "announce step from any state of 1..3 peers with client statistics on; per-torrent cleaning of 1 (3 thorough) peers with client statistics on; all clock values, deadlines, peer ids",
    "outside": "per-family torrent/peer totals and the export lines written by TorrentMapShards::clean_and_get_statistics / TorrentMaps::clean_and_update_statistics: the shard-level functions (Arc<RwLock<..>> maps) exhaust CBMC's memory (>30 GB) even for one empty torrent - NOT decided; "
               "the statistics worker's own += / -= loop; scrape export file contents and atomic replacement (File/BufWriter/rename are OS calls a SAT solver has no model of)",
    "models": ["crossbeam Sender::try_send -> log", "container/lock models as in C01"],
    "assumptions": ["unbounded channel never fails"],
    "harnesses": [
        H(KU, "c01::c20_tally_v4_small_n1", _TALLY, "N=1 inline", ["PeerMap::announce"], cost=100),
        H(KU, "c01::c20_tally_v4_small_n2", _TALLY, "N=2 inline", ["PeerMap::announce"], cost=200),
        H(KU, "c01::c20_tally_v4_large_n3", _TALLY, "N=3 heap", ["PeerMap::announce"], cost=300),
    ] + [dict(h) for h in _LEAFSTAT_H],
}

_HR = "WorkerSharedData::handle_request: None unless connect or valid connection id; reply kind == request kind; announce family == source family; transaction id echoed; forbidden hash -> error and no state; scrape lists exactly the requested torrents; unauthenticated requests create no state"
PROPS["C06"] = {
    "level": "model_checking",
    "functions": ["aquatic_udp::workers::socket::mio::WorkerSharedData::handle_request", "ConnectionValidator::{create_connection_id,connection_id_valid}", "TorrentMaps::{announce,scrape}"],
    "bounds": "all source addresses, all ids / clock / max age values, all announce fields, scrapes of 1 and 3 hashes, access list of 0..1 entries x 3 modes; torrent maps initially empty",
    "outside": "datagram I/O (recv_from / send_to, destination address, source port 0, resend buffer) in mio/socket.rs; io_uring backend; parse errors that know their ids (parser side is C13)",
    "models": ["keyed hash -> uninterpreted function (hook)", "constant_time_eq -> plain slice equality (inline asm not supported)", "crossbeam try_send -> log", "lock/map models"],
    "assumptions": [],
    "harnesses": [
        H(KU, "c06::c06_connect", _HR, "connect", ["handle_request"], cost=60),
        H(KU, "c06::c06_announce", _HR, "announce", ["handle_request"], tier="thorough", cost=900, mem_gb=44, timeout=3000),
        H(KU, "c06::c06_scrape_k1", _HR, "scrape 1 hash", ["handle_request"], cost=60),
        H(KU, "c06::c06_scrape_k3", _HR, "scrape 3 hashes", ["handle_request"], cost=100),
    ],
}
PROPS["C11"]["harnesses"] += [dict(h) for h in PROPS["C06"]["harnesses"][1:2]]

_UPS = ("one TorrentData::upsert_peer_and_get_response_peers from an arbitrary state of exactly N distinct-key peers: complete/incomplete == reference over the others; post-state == reference "
        "(announcer stored once, left==0<=>seeder, fresh deadline, or removed on stop; others untouched; cached seeder count consistent); scrape counts == stored; "
        "reply list <= min(numwant,max_peers) (absent/0 => max), all others when they fit else >= limit-1, distinct, members, never the requester")
_HCLEAN = "one TorrentMap::clean over a torrent of N peers: entry kept <=> deadline > now, survivors untouched, forbidden torrent dropped, empty torrent dropped, permitted non-empty torrent kept"
PROPS["C07"] = {
    "level": "model_checking",
    "functions": ["aquatic_http::workers::swarm::storage::{TorrentData::{upsert_peer_and_get_response_peers,scrape_statistics}, SmallPeerMap::*, LargePeerMap::*, TorrentMap::clean}"],
    "bounds": "pre-states of N = 0..2 peers quick (inline), 3, 4 (crossing inline->heap at 4) and heap N=5 thorough; IPv6 instantiation thorough; all request fields, max_peers 0..8, every RNG state; cleaning over 0..3 peers",
    "outside": "TorrentMap::handle_scrape_request (std BTreeMap under CBMC does not finish; attempted); > 5 peers; TorrentMaps dispatch by address family; glommio worker glue (C16)",
    "models": ["aquatic_common::IndexMap -> array-backed model", "arc-swap / HashSet models for the access list"],
    "assumptions": ["the storage file is compiled in place by harness/kani-http (aquatic_http itself cannot be built by Kani)", "indexmap behaves as documented"],
    "harnesses": [
        H(KH, "c07::c07_upsert_v4_small_n0", _UPS, "N=0 inline", [], cost=20),
        H(KH, "c07::c07_upsert_v4_small_n1", _UPS, "N=1 inline", [], cost=50),
        H(KH, "c07::c07_upsert_v4_small_n2", _UPS, "N=2 inline", [], cost=80),
        H(KH, "c07::c07_upsert_v4_small_n3", _UPS, "N=3 inline", [], tier="thorough", cost=200),
        H(KH, "c07::c07_upsert_v4_small_n4", _UPS, "N=4 inline (crosses inline->heap)", [], tier="thorough", cost=400),
        H(KH, "c07::c07_upsert_v4_large_n5", _UPS, "N=5 heap (crosses heap->inline on stop)", [], tier="thorough", cost=900),
        H(KH, "c07::c07_upsert_v6_small_n1", _UPS, "N=1 inline, IPv6", [], tier="thorough", cost=80),
        H(KH, "c07::c07_clean_small_n0", _HCLEAN, "N=0", [], cost=20),
        H(KH, "c07::c07_clean_small_n1", _HCLEAN, "N=1 inline", [], cost=40),
        H(KH, "c07::c07_clean_small_n2", _HCLEAN, "N=2 inline", [], cost=160),
        H(KH, "c07::c07_clean_large_n3", _HCLEAN, "N=3 heap", [], tier="thorough", cost=300),
    ],
}
PROPS["C10"]["harnesses"] += [dict(h) for h in PROPS["C07"]["harnesses"][7:]]
PROPS["C11"]["harnesses"] += [dict(h) for h in PROPS["C07"]["harnesses"][8:10]]

_C18Q = ["udp-mio-announce-v4", "udp-mio-announce-v6", "udp-uring-announce-v4", "udp-uring-announce-v6", "udp-mio-scrape", "udp-uring-scrape",
         "http-announce-v4", "http-announce-v6", "http-scrape"]
PROPS["C18"] = {
    "level": "model_checking",
    "engine": "z3",
    "technique": "SMT (QF_LIA) queries over the whole configuration space, regenerated from constants and start-up validation read out of /repo's sources; z3 decides, cvc5 must agree; sat models replayed on the real writers",
    "functions": ["udp common.rs BUFFER_SIZE, uring RESPONSE_BUF_LEN/REQUEST_BUF_LEN, http connection.rs REQUEST/RESPONSE_BUFFER_SIZE + header, config defaults and field types, run() validation",
                  "reply size = fixed + per-element * n on the real writers (Kani: C13 c13_*_response_*, C14 c14_*_reply_*)"],
    "bounds": "none on configuration values (full usize / u8 ranges) or element counts; two queries per (tracker, back end, reply kind): default configuration, any accepted configuration",
    "outside": "WebTorrent tracker (message sizes are bounded by websocket_max_message_size, not by a fixed reply buffer); reply-size formulas beyond the element counts the Kani lemmas cover are extrapolated linearly (writer loops add a constant per element); "
               "counters are taken single-digit (conservative: longer counters only enlarge replies); start-up validation is recognised only in the shape `if config.protocol.<field> > <expr> {` inside run()",
    "models": [],
    "assumptions": ["a reply holds at most min(requested, max_response_peers|max_peers) peers (C02) and at most max_scrape_torrents entries (C06/C07)"],
    "harnesses": [H("smt", q, "exists accepted config + accepted request with reply longer than its buffer? (default config; any config)", "unbounded", [], engine="z3", cost=1) for q in _C18Q],
}

_WS = dict(mem_gb=44, timeout=2400)
_C08A = ("one TorrentMap::handle_announce_request (no offers/answer) on a torrent of N stored peers with arbitrary owners: an announce using a peer id owned by another (socket worker, connection) pair is ignored - no reply, entry untouched; "
         "otherwise exactly one AnnounceResponse to the sender with complete/incomplete == stored seeders/leechers incl. the announcer, post-state == reference (stop removes, left==Some(0)<=>seeder, deadline = clock+max_peer_age, owner kept/set), others untouched")
PROPS["C08"] = {
    "level": "model_checking",
    "functions": ["aquatic_ws::workers::swarm::storage::{TorrentMap::{handle_announce_request,handle_scrape_request,handle_connection_closed,clean}, TorrentData::{insert_or_update_peer,handle_connection_closed,clean_and_get_num_peers}}"],
    "bounds": "one torrent holding N <= 1 stored peers (+ the announcer; model map capacity 2 because stored peers themselves hold a map of pending offers and CBMC's cost grows quadratically); all ids, owners (worker id u8, slot index u32), events, left, clock and age values",
    "outside": ">= 2 stored peers; the socket worker's bookkeeping of announced_info_hashes (connection.rs, glommio): the clause 'no effect when that other connection later closes' depends on it and is NOT decided here - "
               "handle_connection_closed carries no connection identity, so at storage level only 'removes exactly the named entry' is checked; multi-worker routing (C17)",
    "models": ["IndexMap / hashbrown::HashMap -> array-backed models (capacity 2 in this crate)", "tracker clock -> harness-chosen second (hook)", "ws_protocol compiled from /repo's files against the hashbrown model (shims/ws-protocol-mount)"],
    "assumptions": ["storage.rs, common.rs, config.rs are compiled in place by harness/kani-ws (aquatic_ws itself cannot be built by Kani)"],
    "harnesses": [
        H(KW, "c08::c08_announce_n0", _C08A, "N=0", [], tier="thorough", cost=600, **_WS),
    ] + [
        H(KW, "c08::c08_announce_lean_%s" % n, _C08A + " [identifiers concrete; " + d + "; owners (worker id, slot key), event, left, clock, ages, deadlines, pending offer symbolic]", "N=1, concrete identifiers, " + d, [], cost=400, mem_gb=16, timeout=850,
          native_tests={"owned by another connection": ("replay-ws", "c08_ownership_other_worker_same_slot"),
                        "cached seeder count": ("replay-ws", "c08_seeder_to_leecher_counts"), "complete != stored": ("replay-ws", "c08_seeder_to_leecher_counts"),
                        "incomplete != stored": ("replay-ws", "c08_seeder_to_leecher_counts"), "left == 0 <=> seeder": ("replay-ws", "c08_seeder_to_leecher_counts"),
                        "announce must set deadline": ("replay-ws", "c10_reannounce_refreshes_deadline")})
        for n, d in (("same", "the request uses the STORED peer id (ownership: owner re-announces / stops, or another connection is ignored)"), ("fresh", "the request uses a fresh peer id (new entry next to the stored one)"))
    ] + [
        H(KW, "c08::c08_announce_n1", _C08A, "N=1 (ownership), all identifiers symbolic", [], tier="thorough", cost=1000,
          native_tests={"owned by another connection": ("replay-ws", "c08_ownership_other_worker_same_slot"),
                        "seeder count": ("replay-ws", "c08_seeder_to_leecher_counts"), "stored seeders": ("replay-ws", "c08_seeder_to_leecher_counts"),
                        "complete != stored": ("replay-ws", "c08_seeder_to_leecher_counts"), "incomplete != stored": ("replay-ws", "c08_seeder_to_leecher_counts"),
                        "announce must set deadline": ("replay-ws", "c10_reannounce_refreshes_deadline")}, **_WS),
        H(KW, "c08::c08_scrape_n1_k1", "scrape: exactly one reply to the sender (pending id kept); requested (within max_scrape_torrents) and stored <=> listed with true counts; nothing else listed", "N=1, 1 hash", [], cost=60, mem_gb=20),
        H(KW, "c08::c08_scrape_n1_k2", "scrape as above", "N=1, 2 hashes", [], tier="thorough", cost=120, mem_gb=20),
        H(KW, "c08::c08_clean_n0", "TorrentMap::clean: peer kept <=> deadline > now; pending offer kept <=> its deadline > now; forbidden / empty torrent dropped", "N=0", [], cost=60, mem_gb=20),
        H(KW, "c08::c08_clean_n1", "TorrentMap::clean as above", "N=1", [], cost=120, mem_gb=20),
        H(KW, "c08::c08_clean_n2", "TorrentMap::clean as above", "N=2", [], tier="thorough", cost=600, **_WS),
        H(KW, "c08::c08_close_n1", "handle_connection_closed(info hash, peer id, closing connection = (socket worker, slot key)) removes exactly the named entry of the named torrent and only if the closing connection created it "
          "(a connection whose announce was ignored names the victim's peer id when it closes: no effect); seeder count adjusted; survivors untouched", "N=1, all owners / closers", [], cost=60, mem_gb=20,
          native_tests={"removes exactly the named entry": ("replay-ws", "c08_close_of_non_owner_keeps_entry"), "removed by a close": ("replay-ws", "c08_close_of_non_owner_keeps_entry")}),
        H(KW, "c08::c08_close_n2", "handle_connection_closed as above", "N=2", [], tier="thorough", cost=200, mem_gb=30),
    ],
}
_C09O = ("announce with K offers from a fresh peer: forwarded == min(K, max_offers, stored others) (none on stop), each OfferOutMessage tagged with the sender's peer id / offer id i / info hash, addressed to a stored peer's own connection, distinct offers to distinct peers, "
         "sender gains exactly the expectations (receiver, offer id) with deadline clock+max_offer_age; last message is the reply to the sender")
_C09A = ("announce carrying an answer (to R, offer o) from P: AnswerOutMessage to R's connection <=> R stored and (P,o) pending at R; then that expectation is consumed (a second identical answer cannot be forwarded); "
         "otherwise an ErrorResponse to P (R stored) or nothing (R absent); never a forwarded message without a matching pending offer")
PROPS["C09"] = {
    "level": "model_checking",
    "functions": ["aquatic_ws storage::{TorrentData::{handle_offers,handle_answer}, extract_response_peers, TorrentMap::handle_announce_request}"],
    "bounds": "N <= 1 stored peers (capacity-2 model maps), K <= 2 offers, max_offers 0..3, at most one pending offer per stored peer in the pre-state; all ids / owners / clock",
    "outside": ">= 2 receivers (receiver distinctness is exercised only through extract_response_peers in C02); expiry of pending offers is C10/C08 clean",
    "models": PROPS["C08"]["models"],
    "assumptions": PROPS["C08"]["assumptions"],
    "harnesses": [
        H(KW, "c08::c09_offers_n0_k1", _C09O, "N=0, 1 offer", [], tier="thorough", cost=600, **_WS),
        H(KW, "c08::c09_offer_lean", "one offer (concrete ids) from a fresh sender with one stored receiver (symbolic owner / pending offer): forwarded iff not stopped and max_offers > 0, to the receiver's own connection, payload (sender id, offer id, info hash), sender records exactly (receiver, offer id) with deadline clock+max_offer_age, reply last and to the sender", "N=1 receiver, 1 offer, max_offers 0..2, concrete identifiers", [], tier="thorough", cost=900, mem_gb=54, timeout=3600,
          native_tests={"offer must go to the receiving peer": ("replay-ws", "c09_answer_addressed_to_offerer")}, ),
        H(KW, "c08::c09_answer_lean", "answer (concrete ids) from a fresh peer to the stored peer or an absent one, offer id one of two: forwarded to the offering peer's connection <=> stored and that exact (answerer, offer id) pending; then consumed; otherwise error to the answerer (stored) or nothing (absent); announce reply last", "N=1, concrete identifiers, symbolic owner / pending offer / clock", [], cost=500, mem_gb=30, timeout=850,
          native_tests={"answer must go to the offering peer": ("replay-ws", "c09_answer_addressed_to_offerer"), "answered offer still pending": ("replay-ws", "c09_answer_addressed_to_offerer")}, ),
        H(KW, "c08::c09_offer_one", "one offer from a fresh sender with one stored receiver: exactly one OfferOutMessage to the receiver's own connection (unless max_offers==0 or stopped), payload = (sender id, offer id, info hash), sender records exactly (receiver, offer id) with deadline clock+max_offer_age, reply last", "N=1 receiver, 1 offer, max_offers 0..2", [], tier="thorough", cost=900,
          native_tests={"offer must go to the receiving peer": ("replay-ws", "c09_answer_addressed_to_offerer")}, **_WS),
        H(KW, "c08::c09_offers_n1_k1", _C09O, "N=1, 1 offer (general harness)", [], tier="thorough", cost=1200, mem_gb=54, timeout=3600),
        H(KW, "c08::c09_offers_n1_k2", _C09O, "N=1, 2 offers", [], tier="thorough", cost=1200, **_WS),
        H(KW, "c08::c09_answer_n0", _C09A, "N=0", [], tier="thorough", cost=600, **_WS),
        H(KW, "c08::c09_answer_n1", _C09A, "N=1, all identifiers symbolic", [], tier="thorough", cost=1000,
          native_tests={"answer must go to the offering peer": ("replay-ws", "c09_answer_addressed_to_offerer"), "answered offer still pending": ("replay-ws", "c09_answer_addressed_to_offerer")}, **_WS),
    ],
}
PROPS["C10"]["harnesses"] += [dict(h) for h in PROPS["C08"]["harnesses"] if h["name"].endswith(("c08_clean_n0", "c08_clean_n1"))]
PROPS["C11"]["harnesses"] += [dict(h) for h in PROPS["C08"]["harnesses"] if h["name"].endswith("c08_clean_n1")]

_C02W = "ws extract_response_peers: result <= limit, distinct, members, never the sender; all others when they fit, else exactly limit - for every RNG state, every limit 0..N+2, sender present or absent"
PROPS["C02"] = {
    "level": "model_checking",
    "functions": ["udp LargePeerMap/SmallPeerMap::extract_response_peers (inside PeerMap::announce)", "http LargePeerMap/SmallPeerMap::extract_response_peers (inside upsert_peer_and_get_response_peers)",
                  "ws storage::extract_response_peers", "rand SmallRng + UniformInt sampling (real code, arbitrary generator state)"],
    "bounds": "udp swarms of 0..3 other peers quick (reply group for heap maps thorough), http 0..2 quick (..5 thorough), ws 0..6 peers; limits 0..8 (udp/http) / 0..N+2 (ws); numwant full width; every xoshiro256++ state",
    "outside": "swarms larger than the stated sizes (the half-range index arithmetic is exercised only up to 6 peers, not for arbitrary usize lengths); family separation is by type parameter (one instantiation per family)",
    "models": ["IndexMap -> array-backed insertion-ordered model with get_range semantics of indexmap (Some iff start <= end <= len)"],
    "assumptions": ["indexmap::get_range behaves as documented"],
    "harnesses": [
        H(KW8, "c08::c02_ws_extract_n0", _C02W, "N=0", ["extract_response_peers"], cost=20),
        H(KW8, "c08::c02_ws_extract_n2", _C02W, "N=2", ["extract_response_peers"], cost=60),
        H(KW8, "c08::c02_ws_extract_n4", _C02W, "N=4 (random half-range branch)", ["extract_response_peers"], cost=200),
        H(KW8, "c08::c02_ws_extract_n6", _C02W, "N=6", ["extract_response_peers"], tier="thorough", cost=600, mem_gb=30),
    ] + [dict(h) for h in PROPS["C01"]["harnesses"][:4]] + [dict(h) for h in PROPS["C07"]["harnesses"][:3]]
      + [dict(h) for h in PROPS["C01"]["harnesses"] if h["name"].endswith("_reply")] + [dict(h) for h in PROPS["C07"]["harnesses"][3:6]],
}


# C09 "distinct offers go to distinct peers, never to the sender, min(offers, max_offers, others) receivers": the receiver
# selection kernel (ws extract_response_peers) is part of C09's quick tier; the offer-forwarding harnesses need > 44 GB (thorough)
PROPS["C09"]["harnesses"] += [dict(h, tier=("quick" if h["name"].endswith(("_n0", "_n2")) else "thorough")) for h in PROPS["C02"]["harnesses"] if "c02_ws_extract" in h["name"]]
PROPS["C09"]["bounds"] += "; receiver selection: swarms of 0..2 (4, 6 thorough) peers, every RNG state"
PROPS["C09"]["outside"] += "; in the quick tier offer forwarding itself (handle_offers: zip of offers and selected receivers, expectation bookkeeping) is NOT exercised - c09_offer_* harnesses exhaust 44 GB and are thorough-only"


def all_harnesses(prop):
    return list(PROPS[prop]["harnesses"])

def _pick(prop, *subs):
    return [dict(h) for h in PROPS[prop]["harnesses"] if any(x in h["name"] for x in subs)]


PROPS["C12"] = {
    "level": "model_checking",
    "functions": ["udp Request::parse_bytes / Response::parse_bytes", "ws TwentyByteVisitor::visit_str", "http urldecode_20_bytes", "access list parse_info_hash",
                  "udp handle_request (connect, scrape) with full-width fields; the announce handlers (PeerMap::announce, upsert_peer_and_get_response_peers with full-width numwant / left) carry the same panic/overflow checks inside the C01 / C07 / C08 checks and are not repeated here"],
    "bounds": "UDP datagrams 0..120 B (256 B thorough), UDP replies 0..64 B (error replies excluded), ws identifier strings of 0,1,19..22 chars, http identifier strings of 0,19,20,21 units, access-list lines 0..42 B; "
              "handlers: all field values (i32::MIN numwant, negative left, ...). Every Kani harness checks panics, unwrap/expect, slice and array indexing, arithmetic overflow (dev profile), division by zero and pointer validity on every path",
    "outside": "simd-json (WebSocket JSON reader), httparse and the HTTP query-string splitter (memchr SIMD over symbolic bytes does not finish), serde_bencode reader, aquatic_peer_id (regex engine); heap use is not measurable by CBMC - only output container lengths are asserted (e.g. info_hashes.len() <= len/20)",
    "models": ["String::from_utf8_lossy stubbed in UDP reply parsing (error text)", "alloc::fmt::format / Backtrace::capture stubbed on error paths"],
    "assumptions": ["release builds wrap instead of panicking on overflow; Kani checks the dev profile, which is stricter"],
    "harnesses": [
        H(UP, "c12::c12_udp_response_any_%d" % n, "client-side reply parser: never panics; Ok(reply) implies the exact length relation (20+6n / 20+18n / 8+12k / 16)", "every byte string of exactly %d bytes, both family flags" % n, ["Response::parse_bytes"], cost=30)
        for n in (0, 3, 8, 16, 20, 26, 27, 38, 56)
    ] + _pick("C13", "request_decode") + _pick("C15", "id_decode") + _pick("C14", "urldecode") + _pick("C11", "parse_info_hash") + _pick("C06", "c06_scrape_k1", "c06_connect") + _pick("C05", "forged"),
}


_LT_STEP = ("Bounded model checking of the compiled tracker code: the pre-state (any storage contents of the stated sizes satisfying the representation invariant), the request, the clock, limits and the RNG state are symbolic; "
            "one real operation is executed and compared with a set-of-entries reference model, and the invariant is re-established - an inductive step, so histories of any length that stay inside the size bound are covered. "
            "The SAT solver's verdict holds for ALL values inside the bound and says nothing outside it (sizes in level_note). This is the right level because the property quantifies over histories and inputs no test samples, "
            "while a full unbounded proof of the container-heavy code is out of reach of the tools in this image.")
_LT_CODEC = ("Bounded model checking of the real encoders/decoders against an independent byte-level oracle: message fields / input bytes are symbolic at full width, sizes are bounded as stated in level_note; "
             "the solver either proves agreement for every value within the bound or returns a concrete message that is replayed natively. Right level: codec bugs hide in rare field values and boundaries that sampling misses; loops over input length force a size bound.")
_LT_KERNEL = ("Bounded model checking at full integer width (no size bound on the integers involved): the arithmetic / comparison kernel is executed symbolically on the compiled code and the solver decides the assertion for every value; "
              "environment (clock, keyed hash) is replaced by contract-only stubs listed in level_note.")
LEVEL_TEXT = {
    "C01": _LT_STEP, "C02": _LT_STEP, "C07": _LT_STEP, "C08": _LT_STEP, "C09": _LT_STEP, "C20": _LT_STEP,
    "C10": _LT_KERNEL + " Storage-level cleaning is an inductive step as for C01/C07/C08.",
    "C03": _LT_KERNEL, "C05": _LT_KERNEL,
    "C06": _LT_STEP.replace("one real operation", "one real request-handler call"),
    "C11": _LT_CODEC + " Enforcement on cleaning is an inductive step over symbolic list, mode and torrent contents.",
    "C12": "Every harness of every property runs with Kani's panic, unwrap, bounds, overflow (dev profile), division and pointer checks on all paths; dedicated harnesses feed arbitrary byte strings of bounded length to each parser. "
           "The verdict is 'no panic for ANY input within the length bound'; longer inputs and the SIMD JSON / HTTP header parsers are outside.",
    "C13": _LT_CODEC, "C14": _LT_CODEC, "C15": _LT_CODEC,
    "C18": "SMT queries (linear integer arithmetic) over the WHOLE configuration space: buffer sizes, defaults, field types and start-up validation are re-read from the sources on every run, reply sizes are linear in element counts (coefficients established on the real writers by C13/C14 harnesses). "
           "unsat = no accepted configuration admits a reply larger than its buffer (unbounded claim within the size model); sat = concrete configuration, replayed on the real writer.",
}
for _p, _t in LEVEL_TEXT.items():
    if _p in PROPS:
        PROPS[_p]["level_text"] = _t

NOTES = ("Every check = a set of solver queries (Kani/CBMC proof harnesses, z3 for C18) generated from /repo's current working tree. "
         "Exit 0 all discharged; 1 replayed counterexample (VIOLATION line); 2 inconclusive (timeout/OOM/vacuous/non-replaying) - never success.")

_PENDING = "no check built"
NOT_APPLICABLE = {
    "C04": "Kani/CBMC has no threads; the bounded sequentialisation (one operation run to completion inside a lock-free gap of another, model locks asserting lock order; harness/kani-udp/src/c04.rs, in_udp_swarm.rs c04_*) was built, "
           "but every variant of the shard-level composite (TorrentMapShards::announce + clean_and_get_statistics over Arc<RwLock<PeerMap>>) exhausts 30 GB in CBMC's propositional reduction, so nothing is decided; not claimed rather than switching technique",
    "C16": "HTTP framing/worker plumbing lives only in glommio async code (connection.rs, mod.rs, lib.rs); Kani's toolchain cannot compile glommio (backtrace E0659) and there is no loop-free kernel to lift into SMT; storage half is C07",
    "C17": "WebTorrent routing/cleanup lives only in glommio async socket workers; not compilable under Kani and not encodable as a bounded symbolic run; storage-level addressing is C09, ownership C08",
    "C19": "whole-program property over OS threads, JoinHandle::is_finished, sleeps and panics through executors; Kani has no threads and panic=abort; no bounded symbolic encoding of run() exists",
}
for _p in ["C%02d" % i for i in range(1, 21)]:
    NOT_APPLICABLE.setdefault(_p, _PENDING)
