//! C06 / C11 gate: WorkerSharedData::handle_request contract.
//! (crossbeam's real `try_send` must be stubbed in every harness that can reach it: its
//! internals make the Kani compiler ICE.)
use aquatic_udp::workers::socket::verif_mio_harness as h;

macro_rules! hr {
    ($name:ident, $call:expr) => {
        #[kani::proof]
        #[kani::unwind(6)]
        #[kani::stub(constant_time_eq::constant_time_eq, crate::ct_eq_stub)]
        #[kani::stub(crossbeam_channel::Sender::try_send, aquatic_udp::swarm::verif_harness::log_try_send)]
        fn $name() {
            $call;
        }
    };
}
hr!(c06_connect, h::c06_connect());
hr!(c06_announce, h::c06_announce());
hr!(c06_scrape_k1, h::c06_scrape::<1>());
hr!(c06_scrape_k3, h::c06_scrape::<3>());

#[cfg(verif_pb_c06)]
include!(env!("VERIF_PLAYBACK_FILE"));
