//! Stands in for the `hashbrown` crate in harness builds of sources that are *mounted* (compiled
//! from /repo's files by a harness-side manifest): `hashbrown::HashMap` is the array-backed model
//! of aquatic_common::verif_shims (real hashbrown costs ~200 s per symbolic insert under CBMC).
pub use aquatic_common::verif_shims::{HashMap, HashSet};
