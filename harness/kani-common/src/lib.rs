//! Kani harnesses over the real `aquatic_common` crate (C03, C10, C11).
#![allow(dead_code)]
#[cfg(kani)]
mod dbg;
#[cfg(kani)]
mod c03;
#[cfg(kani)]
mod c10;
#[cfg(kani)]
mod c11;

#[cfg(kani)]
pub fn backtrace_stub() -> std::backtrace::Backtrace {
    std::backtrace::Backtrace::disabled()
}
#[cfg(kani)]
pub fn format_stub(_a: std::fmt::Arguments<'_>) -> String {
    String::new()
}
