//! C05: connection-id window and binding (real create_connection_id / connection_id_valid; the
//! keyed hash is an uninterpreted function).
use aquatic_udp::workers::socket::verif_validator_harness as h;

#[kani::proof]
#[kani::unwind(6)]
#[kani::stub(constant_time_eq::constant_time_eq, crate::ct_eq_stub)]
fn c05_window() {
    h::c05_window();
}

#[kani::proof]
#[kani::unwind(6)]
#[kani::stub(constant_time_eq::constant_time_eq, crate::ct_eq_stub)]
fn c05_forged() {
    h::c05_forged();
}

#[cfg(verif_pb_c05)]
include!(env!("VERIF_PLAYBACK_FILE"));
