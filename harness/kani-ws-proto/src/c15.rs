//! C15: 20-byte identifiers <-> strings of exactly 20 chars in U+0000..=U+00FF.
use aquatic_ws_protocol::common::{InfoHash, OfferId, PeerId};
use serde::de::value::{Error as DeError, StrDeserializer};
use serde::ser::{Impossible, Serializer};
use serde::{Deserialize, Serialize};

// ---------------------------------------------------------------- encode

/// Serializer that only accepts `serialize_str` and records the text.
struct Cap<'a> {
    out: &'a mut [u8; 48],
    len: &'a mut usize,
}
#[derive(Debug)]
struct CapErr;
impl std::fmt::Display for CapErr {
    fn fmt(&self, _f: &mut std::fmt::Formatter<'_>) -> std::fmt::Result {
        Ok(())
    }
}
impl std::error::Error for CapErr {}
impl serde::ser::Error for CapErr {
    fn custom<T: std::fmt::Display>(_m: T) -> Self {
        CapErr
    }
}
macro_rules! no {
    ($($f:ident($t:ty)),*) => { $(fn $f(self, _v: $t) -> Result<(), CapErr> { Err(CapErr) })* };
}
impl<'a> Serializer for Cap<'a> {
    type Ok = ();
    type Error = CapErr;
    type SerializeSeq = Impossible<(), CapErr>;
    type SerializeTuple = Impossible<(), CapErr>;
    type SerializeTupleStruct = Impossible<(), CapErr>;
    type SerializeTupleVariant = Impossible<(), CapErr>;
    type SerializeMap = Impossible<(), CapErr>;
    type SerializeStruct = Impossible<(), CapErr>;
    type SerializeStructVariant = Impossible<(), CapErr>;
    fn serialize_str(self, v: &str) -> Result<(), CapErr> {
        let b = v.as_bytes();
        assert!(b.len() <= 48, "identifier text longer than 48 bytes");
        self.out[..b.len()].copy_from_slice(b);
        *self.len = b.len();
        Ok(())
    }
    no!(serialize_bool(bool), serialize_i8(i8), serialize_i16(i16), serialize_i32(i32), serialize_i64(i64),
        serialize_u8(u8), serialize_u16(u16), serialize_u32(u32), serialize_u64(u64), serialize_f32(f32),
        serialize_f64(f64), serialize_char(char), serialize_bytes(&[u8]));
    fn serialize_none(self) -> Result<(), CapErr> {
        Err(CapErr)
    }
    fn serialize_some<T: ?Sized + Serialize>(self, _v: &T) -> Result<(), CapErr> {
        Err(CapErr)
    }
    fn serialize_unit(self) -> Result<(), CapErr> {
        Err(CapErr)
    }
    fn serialize_unit_struct(self, _n: &'static str) -> Result<(), CapErr> {
        Err(CapErr)
    }
    fn serialize_unit_variant(self, _n: &'static str, _i: u32, _v: &'static str) -> Result<(), CapErr> {
        Err(CapErr)
    }
    fn serialize_newtype_struct<T: ?Sized + Serialize>(self, _n: &'static str, v: &T) -> Result<(), CapErr> {
        v.serialize(self)
    }
    fn serialize_newtype_variant<T: ?Sized + Serialize>(self, _n: &'static str, _i: u32, _v: &'static str, _x: &T) -> Result<(), CapErr> {
        Err(CapErr)
    }
    fn serialize_seq(self, _l: Option<usize>) -> Result<Self::SerializeSeq, CapErr> {
        Err(CapErr)
    }
    fn serialize_tuple(self, _l: usize) -> Result<Self::SerializeTuple, CapErr> {
        Err(CapErr)
    }
    fn serialize_tuple_struct(self, _n: &'static str, _l: usize) -> Result<Self::SerializeTupleStruct, CapErr> {
        Err(CapErr)
    }
    fn serialize_tuple_variant(self, _n: &'static str, _i: u32, _v: &'static str, _l: usize) -> Result<Self::SerializeTupleVariant, CapErr> {
        Err(CapErr)
    }
    fn serialize_map(self, _l: Option<usize>) -> Result<Self::SerializeMap, CapErr> {
        Err(CapErr)
    }
    fn serialize_struct(self, _n: &'static str, _l: usize) -> Result<Self::SerializeStruct, CapErr> {
        Err(CapErr)
    }
    fn serialize_struct_variant(self, _n: &'static str, _i: u32, _v: &'static str, _l: usize) -> Result<Self::SerializeStructVariant, CapErr> {
        Err(CapErr)
    }
}

/// forall id (of the given shape): the emitted text is exactly 20 chars, char i == U+00<id[i]>
/// (independent UTF-8 reference: bytes < 0x80 are one byte, others are 0xC2/0xC3 + continuation).
/// shape 0: every byte < 0x80; shape 1: every byte >= 0x80 (all offsets concrete for CBMC in both);
/// shape 2: the first four bytes arbitrary, the rest fixed ASCII (mixed widths).
fn id_encode(shape: u8) {
    let mut id: [u8; 20] = kani::any();
    let mut i = 0;
    while i < 20 {
        match shape {
            0 => kani::assume(id[i] < 0x80),
            1 => kani::assume(id[i] >= 0x80),
            _ => {
                if i >= 4 {
                    id[i] = b'A';
                }
            }
        }
        i += 1;
    }
    let mut out = [0u8; 48];
    let mut len = 0usize;
    let which: u8 = kani::any();
    let r = match which % 3 {
        0 => InfoHash(id).serialize(Cap { out: &mut out, len: &mut len }),
        1 => PeerId(id).serialize(Cap { out: &mut out, len: &mut len }),
        _ => OfferId(id).serialize(Cap { out: &mut out, len: &mut len }),
    };
    assert!(r.is_ok(), "identifier must serialise as a string");
    let mut exp = [0u8; 48];
    let mut n = 0usize;
    let mut i = 0;
    while i < 20 {
        let b = id[i];
        if b < 0x80 {
            exp[n] = b;
            n += 1;
        } else {
            exp[n] = 0xC0 | (b >> 6);
            exp[n + 1] = 0x80 | (b & 0x3F);
            n += 2;
        }
        i += 1;
    }
    assert!(len == n, "identifier text has wrong byte length (not 20 chars in U+0000..U+00FF)");
    let j: usize = kani::any();
    kani::assume(j < 48);
    assert!(out[j] == exp[j], "identifier text byte differs from reference UTF-8 of U+00xx");
}

/// `str::from_utf8(..).unwrap()` on the freshly encoded text is replaced by the unchecked
/// conversion: UTF-8 validation of a symbolic-length buffer does not finish under CBMC. The
/// harness's own reference comparison establishes that the bytes ARE the UTF-8 encoding of 20
/// chars in U+0000..U+00FF, hence valid UTF-8, hence the real `unwrap` cannot fail.
fn from_utf8_stub(v: &[u8]) -> Result<&str, std::str::Utf8Error> {
    Ok(unsafe { std::str::from_utf8_unchecked(v) })
}

#[kani::proof]
#[kani::unwind(22)]
#[kani::stub(std::str::from_utf8, from_utf8_stub)]
fn c15_id_encode_ascii() {
    id_encode(0);
}
#[kani::proof]
#[kani::unwind(22)]
#[kani::stub(std::str::from_utf8, from_utf8_stub)]
fn c15_id_encode_high() {
    id_encode(1);
}
#[kani::proof]
#[kani::unwind(22)]
#[kani::stub(std::str::from_utf8, from_utf8_stub)]
fn c15_id_encode_mixed4() {
    id_encode(2);
}

// ---------------------------------------------------------------- decode

/// Builds a string of exactly N chars, each either ASCII, a 2-byte char (U+0080..U+07FF) or a
/// 3-byte char (U+0800..U+FFFF minus surrogates), all chosen by the solver. Returns code points.
fn any_str<const N: usize>(buf: &mut [u8; 72]) -> (usize, [u32; N]) {
    let mut cps = [0u32; N];
    let mut n = 0usize;
    let mut i = 0;
    while i < N {
        let cls: u8 = kani::any();
        kani::assume(cls < 3);
        if cls == 0 {
            let b: u8 = kani::any();
            kani::assume(b < 0x80);
            buf[n] = b;
            n += 1;
            cps[i] = b as u32;
        } else if cls == 1 {
            let cp: u16 = kani::any();
            kani::assume(cp >= 0x80 && cp < 0x800);
            buf[n] = 0xC0 | (cp >> 6) as u8;
            buf[n + 1] = 0x80 | (cp & 0x3F) as u8;
            n += 2;
            cps[i] = cp as u32;
        } else {
            let cp: u16 = kani::any();
            kani::assume(cp >= 0x800 && !(cp >= 0xD800 && cp < 0xE000));
            buf[n] = 0xE0 | (cp >> 12) as u8;
            buf[n + 1] = 0x80 | ((cp >> 6) & 0x3F) as u8;
            buf[n + 2] = 0x80 | (cp & 0x3F) as u8;
            n += 3;
            cps[i] = cp as u32;
        }
        i += 1;
    }
    (n, cps)
}

/// Ok(v) <=> exactly 20 chars, all <= U+00FF, and v[i] == char i.
fn id_decode<const N: usize>() {
    let mut buf = [0u8; 72];
    let (n, cps) = any_str::<N>(&mut buf);
    let s = unsafe { std::str::from_utf8_unchecked(&buf[..n]) };
    let r: Result<InfoHash, DeError> = InfoHash::deserialize(StrDeserializer::new(s));
    let mut all_latin1 = true;
    let mut i = 0;
    while i < N {
        if cps[i] > 255 {
            all_latin1 = false;
        }
        i += 1;
    }
    match &r {
        Ok(v) => {
            assert!(N >= 20, "identifier string shorter than 20 chars accepted");
            assert!(N <= 20, "identifier string longer than 20 chars accepted");
            assert!(all_latin1, "identifier with a char above U+00FF accepted");
            if N == 20 {
                let k: usize = kani::any();
                kani::assume(k < 20);
                assert!(v.0[k] as u32 == cps[k], "identifier byte != char value");
            }
        }
        Err(_) => assert!(!(N == 20 && all_latin1), "well-formed 20-char identifier rejected"),
    }
    kani::cover!(r.is_ok() || N != 20, "accepting path reachable");
    kani::cover!(r.is_err() || N == 20, "rejecting path reachable");
    std::mem::forget(r);
}

macro_rules! dec {
    ($name:ident, $n:literal) => {
        #[kani::proof]
        #[kani::unwind(24)]
        #[kani::stub(alloc::fmt::format, crate::format_stub)]
        fn $name() {
            id_decode::<$n>();
        }
    };
}
dec!(c15_id_decode_n0, 0);
dec!(c15_id_decode_n1, 1);
dec!(c15_id_decode_n19, 19);
dec!(c15_id_decode_n20, 20);
dec!(c15_id_decode_n21, 21);
dec!(c15_id_decode_n22, 22);

#[cfg(verif_pb_c15)]
include!(env!("VERIF_PLAYBACK_FILE"));
