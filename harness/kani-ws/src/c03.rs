//! C03 (WebTorrent): `IpVersion::canonical_from_ip` total, full width - an IPv4-mapped IPv6
//! source is the embedded IPv4 peer (family V4), every other IPv6 source is V6, every IPv4 is V4.
use crate::common::IpVersion;
use std::net::{IpAddr, Ipv4Addr, Ipv6Addr};

#[kani::proof]
fn c03_ws_canonical_family() {
    let o: [u8; 16] = kani::any();
    let v6 = Ipv6Addr::from(o);
    let mapped = o[0] == 0 && o[1] == 0 && o[2] == 0 && o[3] == 0 && o[4] == 0 && o[5] == 0 && o[6] == 0 && o[7] == 0
        && o[8] == 0 && o[9] == 0 && o[10] == 0xff && o[11] == 0xff;
    let got = IpVersion::canonical_from_ip(IpAddr::V6(v6));
    if mapped {
        assert!(matches!(got, IpVersion::V4), "IPv4-mapped IPv6 source must be treated as IPv4");
        kani::cover!(true, "mapped");
    } else {
        assert!(matches!(got, IpVersion::V6), "non-mapped IPv6 source must stay IPv6");
        kani::cover!(o[10] == 0xff && o[11] == 0xff, "near-mapped");
    }
    let q: [u8; 4] = kani::any();
    assert!(matches!(IpVersion::canonical_from_ip(IpAddr::V4(Ipv4Addr::from(q))), IpVersion::V4), "IPv4 source is IPv4");
}
