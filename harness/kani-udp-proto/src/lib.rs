//! Kani harnesses over the real `aquatic_udp_protocol` crate (C13, C12, C06-parse, C18 lemmas).
//!
//! The oracle is an independent BEP 15 layout table written here: fixed offsets and
//! big-endian reads/writes, sharing no code with the crate's zerocopy structs.
#![allow(dead_code)]

#[cfg(kani)]
mod oracle;
#[cfg(kani)]
mod c13;
#[cfg(kani)]
mod c12;
