//! Stands in for the `indexmap` crate where mounted sources name `::indexmap::map::Entry`.
pub mod map {
    pub use aquatic_common::verif_shims::indexmap_map::Entry;
}
pub use aquatic_common::verif_shims::IndexMap;
