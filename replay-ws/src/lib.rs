//! Native (no Kani, real indexmap / hashbrown / rand) reproductions of WebTorrent storage
//! findings whose solver counterexample is too large for Kani's concrete-playback generator
//! (the C08 instance has 9M variables; kani-driver runs out of memory turning the trace into a
//! test). Each test drives aquatic_ws's real storage.rs (mounted in place) through its public
//! API with the input shape the solver reported, and FAILS when the defect is present.
#![allow(dead_code, unused_imports)]
#[path = "/repo/crates/ws/src/common.rs"]
pub mod common;
#[path = "/repo/crates/ws/src/config.rs"]
pub mod config;
pub mod workers {
    pub mod swarm {
        #[path = "/repo/crates/ws/src/workers/swarm/storage.rs"]
        pub mod storage;
    }
}

#[cfg(test)]
mod tests {
    use crate::common::*;
    use crate::config::Config;
    use crate::workers::swarm::storage::TorrentMaps;
    use aquatic_common::ServerStartInstant;
    use aquatic_ws_protocol::common::*;
    use aquatic_ws_protocol::incoming::{AnnounceEvent, AnnounceRequest};
    use aquatic_ws_protocol::outgoing::OutMessage;
    use rand::rngs::SmallRng;
    use rand::SeedableRng;

    fn req(h: [u8; 20], pid: [u8; 20], event: Option<AnnounceEvent>, left: Option<usize>) -> AnnounceRequest {
        AnnounceRequest {
            action: AnnounceAction::Announce,
            info_hash: InfoHash(h),
            peer_id: PeerId(pid),
            bytes_left: left,
            event,
            offers: None,
            numwant: None,
            answer: None,
            answer_to_peer_id: None,
            answer_offer_id: None,
        }
    }

    fn meta(consumer: u8, slot: u32) -> InMessageMeta {
        InMessageMeta {
            out_message_consumer_id: ConsumerId(consumer),
            connection_id: ConnectionId::from(slotmap::KeyData::from_ffi((1u64 << 32) | slot as u64)),
            ip_version: IpVersion::V4,
            pending_scrape_id: None,
        }
    }

    /// C08: a stored peer is owned by (socket worker, connection slot). Per-worker slot maps hand
    /// out the same slot keys, so another worker's connection with the same slot key must still be
    /// treated as a different connection: its announce with the victim's peer id must be ignored.
    #[test]
    fn c08_ownership_other_worker_same_slot() {
        let config = Config::default();
        let mut maps = TorrentMaps::new(0);
        let mut rng = SmallRng::seed_from_u64(1);
        let mut out = Vec::new();
        let start = ServerStartInstant::new();
        let (h, pid) = ([7u8; 20], [9u8; 20]);
        // owner: worker 0, slot 5
        maps.handle_announce_request(&config, &mut rng, &mut out, start, meta(0, 5), req(h, pid, Some(AnnounceEvent::Started), Some(0)));
        assert_eq!(out.len(), 1);
        out.clear();
        // attacker: worker 1, same slot index 5, same peer id, tries to stop the victim's entry
        maps.handle_announce_request(&config, &mut rng, &mut out, start, meta(1, 5), req(h, pid, Some(AnnounceEvent::Stopped), None));
        assert!(out.is_empty(), "announce with a peer id owned by another connection must get no reply");
        // and the victim's entry is still there: its own re-announce reports itself as seeder
        maps.handle_announce_request(&config, &mut rng, &mut out, start, meta(0, 5), req(h, pid, None, Some(0)));
        match &out[0].1 {
            OutMessage::AnnounceResponse(r) => assert_eq!((r.complete, r.incomplete), (1, 0)),
            _ => panic!("unexpected message"),
        }
    }
}
