//! C13: UDP wire codec == BEP 15 layout (independent oracle) and round-trips.
use std::io::Cursor;
use std::num::NonZeroU16;

use aquatic_udp_protocol::*;

fn lossy_stub(_v: &[u8]) -> std::borrow::Cow<'_, str> {
    std::borrow::Cow::Borrowed("")
}

use crate::oracle::{self, ann, be16, be32, be64, classify, put16, put32, put64, Kind};

fn any_event() -> (AnnounceEvent, u32) {
    let e: u8 = kani::any();
    kani::assume(e < 4);
    match e {
        0 => (AnnounceEvent::None, 0),
        1 => (AnnounceEvent::Completed, 1),
        2 => (AnnounceEvent::Started, 2),
        _ => (AnnounceEvent::Stopped, 3),
    }
}

fn event_code(e: AnnounceEvent) -> u32 {
    match e {
        AnnounceEvent::None => 0,
        AnnounceEvent::Completed => 1,
        AnnounceEvent::Started => 2,
        AnnounceEvent::Stopped => 3,
    }
}

fn any_announce_request() -> AnnounceRequest {
    let (event, _) = any_event();
    let port: u16 = kani::any();
    kani::assume(port != 0);
    AnnounceRequest {
        connection_id: ConnectionId::new(kani::any()),
        action_placeholder: AnnounceActionPlaceholder::Announce,
        transaction_id: TransactionId::new(kani::any()),
        info_hash: InfoHash(kani::any()),
        peer_id: PeerId(kani::any()),
        bytes_downloaded: NumberOfBytes::new(kani::any()),
        bytes_left: NumberOfBytes::new(kani::any()),
        bytes_uploaded: NumberOfBytes::new(kani::any()),
        event,
        ip_address: Ipv4AddrBytes(kani::any()),
        key: PeerKey::new(kani::any()),
        peers_wanted: NumberOfPeers::new(kani::any()),
        port: Port::new(NonZeroU16::new(port).unwrap()),
    }
}

/// forall i < n: a[i] == b[i], as one assertion over a solver-chosen index (no loop to unwind)
fn eq_bytes(a: &[u8], b: &[u8], n: usize) -> bool {
    let i: usize = kani::any();
    kani::assume(i < n);
    a[i] == b[i]
}

#[kani::proof]
#[kani::unwind(5)]
fn c13_connect_request_encode() {
    let tid: i32 = kani::any();
    let r = Request::Connect(ConnectRequest {
        transaction_id: TransactionId::new(tid),
    });
    let mut buf = [0xAAu8; 32];
    let mut c = Cursor::new(&mut buf[..]);
    r.write_bytes(&mut c).unwrap();
    let n = c.position() as usize;
    assert!(n == 16);
    let mut exp = [0xAAu8; 32];
    put64(&mut exp, 0, oracle::PROTOCOL_ID);
    put32(&mut exp, 8, 0);
    put32(&mut exp, 12, tid as u32);
    assert!(eq_bytes(&buf, &exp, 32));
    kani::cover!(tid == -2, "reach");
}

#[kani::proof]
#[kani::unwind(5)]
fn c13_announce_request_encode() {
    let r = any_announce_request();
    let mut buf = [0xAAu8; 128];
    let mut c = Cursor::new(&mut buf[..]);
    Request::Announce(r).write_bytes(&mut c).unwrap();
    assert!(c.position() as usize == ann::LEN);
    let mut exp = [0xAAu8; 128];
    put64(&mut exp, ann::CONNECTION_ID, r.connection_id.0.get() as u64);
    put32(&mut exp, ann::ACTION, 1);
    put32(&mut exp, ann::TRANSACTION_ID, r.transaction_id.0.get() as u32);
    let ih = r.info_hash.0;
    let pid = r.peer_id.0;
    exp[ann::INFO_HASH..ann::INFO_HASH + 20].copy_from_slice(&ih);
    exp[ann::PEER_ID..ann::PEER_ID + 20].copy_from_slice(&pid);
    put64(&mut exp, ann::DOWNLOADED, r.bytes_downloaded.0.get() as u64);
    put64(&mut exp, ann::LEFT, r.bytes_left.0.get() as u64);
    put64(&mut exp, ann::UPLOADED, r.bytes_uploaded.0.get() as u64);
    put32(&mut exp, ann::EVENT, event_code(r.event));
    let ip = r.ip_address.0;
    exp[ann::IP] = ip[0];
    exp[ann::IP + 1] = ip[1];
    exp[ann::IP + 2] = ip[2];
    exp[ann::IP + 3] = ip[3];
    put32(&mut exp, ann::KEY, r.key.0.get() as u32);
    put32(&mut exp, ann::NUM_WANT, r.peers_wanted.0.get() as u32);
    put16(&mut exp, ann::PORT, r.port.0.get());
    assert!(eq_bytes(&buf, &exp, 128));
    kani::cover!(event_code(r.event) == 3, "stopped reachable");
}

fn scrape_request_encode<const N: usize>() {
    let hs: [[u8; 20]; N] = kani::any();
    let cid: i64 = kani::any();
    let tid: i32 = kani::any();
    let mut v = Vec::with_capacity(N);
    let mut i = 0;
    while i < N {
        v.push(InfoHash(hs[i]));
        i += 1;
    }
    let r = Request::Scrape(ScrapeRequest {
        connection_id: ConnectionId::new(cid),
        transaction_id: TransactionId::new(tid),
        info_hashes: v,
    });
    let mut buf = [0xAAu8; 80];
    let mut c = Cursor::new(&mut buf[..]);
    r.write_bytes(&mut c).unwrap();
    assert!(c.position() as usize == 16 + 20 * N, "scrape request length 16+20n");
    let mut exp = [0xAAu8; 80];
    put64(&mut exp, 0, cid as u64);
    put32(&mut exp, 8, 2);
    put32(&mut exp, 12, tid as u32);
    let mut i = 0;
    while i < N {
        exp[16 + 20 * i..36 + 20 * i].copy_from_slice(&hs[i]);
        i += 1;
    }
    assert!(eq_bytes(&buf, &exp, 80), "scrape request bytes == BEP15");
    // parses back to an equal request
    let back = Request::parse_bytes(&buf[..16 + 20 * N], 255);
    match &back {
        Ok(b) => assert!(*b == r, "scrape request round-trip"),
        Err(_) => assert!(false, "scrape request round-trip rejected"),
    }
    std::mem::forget(back);
    std::mem::forget(r);
}

#[kani::proof]
#[kani::unwind(22)]
fn c13_scrape_request_encode_n1() {
    scrape_request_encode::<1>();
}
#[kani::proof]
#[kani::unwind(22)]
fn c13_scrape_request_encode_n3() {
    scrape_request_encode::<3>();
}

/// For every datagram of up to `N` bytes: the real parser accepts exactly what the BEP 15
/// oracle accepts, every field carries the bytes at its BEP 15 offset, rejections that know
/// their ids carry the right ids, and scrapes are cut to the first `max` hashes.
fn request_decode<const N: usize>() {
    let buf: [u8; N] = kani::any();
    let len: usize = kani::any();
    kani::assume(len <= N);
    let max: u8 = kani::any();
    let b = &buf[..len];
    let res = Request::parse_bytes(b, max);
    let kind = classify(b);
    match &res {
        Ok(Request::Connect(r)) => {
            assert!(kind == Kind::Connect);
            assert!(r.transaction_id.0.get() as u32 == be32(b, 12));
        }
        Ok(Request::Announce(r)) => {
            assert!(kind == Kind::Announce);
            assert!(r.connection_id.0.get() as u64 == be64(b, ann::CONNECTION_ID));
            assert!(r.transaction_id.0.get() as u32 == be32(b, ann::TRANSACTION_ID));
            let ih = r.info_hash.0;
            let pid = r.peer_id.0;
            // universally quantified index instead of a loop
            let i: usize = kani::any();
            kani::assume(i < 20);
            assert!(ih[i] == b[ann::INFO_HASH + i], "announce info_hash byte at BEP15 offset");
            assert!(pid[i] == b[ann::PEER_ID + i], "announce peer_id byte at BEP15 offset");
            assert!(r.bytes_downloaded.0.get() as u64 == be64(b, ann::DOWNLOADED));
            assert!(r.bytes_left.0.get() as u64 == be64(b, ann::LEFT));
            assert!(r.bytes_uploaded.0.get() as u64 == be64(b, ann::UPLOADED));
            assert!(event_code(r.event) == be32(b, ann::EVENT));
            let ip = r.ip_address.0;
            assert!(ip[0] == b[ann::IP] && ip[1] == b[ann::IP + 1]);
            assert!(ip[2] == b[ann::IP + 2] && ip[3] == b[ann::IP + 3]);
            assert!(r.key.0.get() as u32 == be32(b, ann::KEY));
            assert!(r.peers_wanted.0.get() as u32 == be32(b, ann::NUM_WANT));
            assert!(r.port.0.get() == be16(b, ann::PORT));
            kani::cover!(len > ann::LEN, "announce with extension bytes accepted");
        }
        Ok(Request::Scrape(r)) => {
            match kind {
                Kind::Scrape { hashes } => {
                    let want = if (max as usize) < hashes { max as usize } else { hashes };
                    assert!(r.info_hashes.len() == want);
                    assert!(r.connection_id.0.get() as u64 == be64(b, 0));
                    assert!(r.transaction_id.0.get() as u32 == be32(b, 12));
                    kani::cover!(hashes == 2 && max == 1, "scrape truncated");
                    kani::cover!(max == 0, "scrape truncated to nothing");
                    kani::cover!(hashes == 5 && max >= 5, "five hashes kept");
                    let i: usize = kani::any();
                    let j: usize = kani::any();
                    kani::assume(i < want && j < 20);
                    let h = r.info_hashes[i].0;
                    assert!(h[j] == b[16 + 20 * i + j], "scrape hash i byte j at offset 16+20i+j");
                }
                _ => assert!(false),
            }
        }
        Err(RequestParseError::Sendable {
            connection_id,
            transaction_id,
            ..
        }) => {
            assert!(kind == Kind::RejectSendable);
            assert!(connection_id.0.get() as u64 == be64(b, 0));
            assert!(transaction_id.0.get() as u32 == be32(b, 12));
            kani::cover!(be32(b, 8) == 1, "port 0 announce rejected sendably");
            kani::cover!(be32(b, 8) == 2 && len == 16, "empty scrape rejected sendably");
        }
        Err(RequestParseError::Unsendable { .. }) => {
            assert!(kind == Kind::Reject);
            kani::cover!(len >= 98 && be32(b, 8) == 1, "announce with bad event rejected");
            kani::cover!(len >= 16 && be32(b, 8) == 0, "connect with wrong protocol id rejected");
        }
    }
    std::mem::forget(res);
}

#[kani::proof]
#[kani::unwind(5)]
fn c13_request_decode_120() {
    request_decode::<120>();
}

#[kani::proof]
#[kani::unwind(5)]
fn c13_request_decode_256() {
    request_decode::<256>();
}

// ---------------------------------------------------------------- responses

#[kani::proof]
#[kani::unwind(5)]
#[kani::stub(std::string::String::from_utf8_lossy, lossy_stub)]
fn c13_connect_response_encode_decode() {
    let tid: i32 = kani::any();
    let cid: i64 = kani::any();
    let r = Response::Connect(ConnectResponse {
        transaction_id: TransactionId::new(tid),
        connection_id: ConnectionId::new(cid),
    });
    let mut buf = [0xAAu8; 32];
    let mut c = Cursor::new(&mut buf[..]);
    r.write_bytes(&mut c).unwrap();
    assert!(c.position() == 16, "connect reply is 16 bytes");
    let mut exp = [0xAAu8; 32];
    put32(&mut exp, 0, 0);
    put32(&mut exp, 4, tid as u32);
    put64(&mut exp, 8, cid as u64);
    assert!(eq_bytes(&buf, &exp, 32), "connect reply bytes == BEP15");
    let ipv4: bool = kani::any();
    let back = Response::parse_bytes(&buf[..16], ipv4);
    match &back {
        Ok(Response::Connect(b)) => {
            assert!(b.transaction_id.0.get() == tid && b.connection_id.0.get() == cid, "connect reply round-trip")
        }
        _ => assert!(false, "connect reply round-trip rejected"),
    }
    std::mem::forget(back);
}

trait IpB: Ip {
    const LEN: usize;
    const V4: bool;
    fn bytes(&self) -> &[u8];
    fn wrap(r: AnnounceResponse<Self>) -> Response;
}
impl IpB for Ipv4AddrBytes {
    const LEN: usize = 4;
    const V4: bool = true;
    fn bytes(&self) -> &[u8] {
        &self.0
    }
    fn wrap(r: AnnounceResponse<Self>) -> Response {
        Response::AnnounceIpv4(r)
    }
}
impl IpB for Ipv6AddrBytes {
    const LEN: usize = 16;
    const V4: bool = false;
    fn bytes(&self) -> &[u8] {
        &self.0
    }
    fn wrap(r: AnnounceResponse<Self>) -> Response {
        Response::AnnounceIpv6(r)
    }
}

fn announce_response<I: IpB, const N: usize>(mk: fn() -> I) {
    let (tid, interval, leechers, seeders): (i32, i32, i32, i32) = kani::any();
    let mut ips = Vec::with_capacity(N);
    let mut ports = [0u16; N];
    let mut peers = Vec::with_capacity(N);
    let mut i = 0;
    while i < N {
        let ip = mk();
        ports[i] = kani::any();
        peers.push(ResponsePeer {
            ip_address: ip,
            port: Port(ports[i].into()),
        });
        ips.push(ip);
        i += 1;
    }
    let r = I::wrap(AnnounceResponse {
        fixed: AnnounceResponseFixedData {
            transaction_id: TransactionId::new(tid),
            announce_interval: AnnounceInterval::new(interval),
            leechers: NumberOfPeers::new(leechers),
            seeders: NumberOfPeers::new(seeders),
        },
        peers,
    });
    let mut buf = [0xAAu8; 80];
    let mut c = Cursor::new(&mut buf[..]);
    r.write_bytes(&mut c).unwrap();
    let l = 20 + N * (I::LEN + 2);
    assert!(c.position() as usize == l, "announce reply length 20+(iplen+2)n");
    let mut exp = [0xAAu8; 80];
    put32(&mut exp, 0, 1);
    put32(&mut exp, 4, tid as u32);
    put32(&mut exp, 8, interval as u32);
    put32(&mut exp, 12, leechers as u32);
    put32(&mut exp, 16, seeders as u32);
    let mut i = 0;
    while i < N {
        let o = 20 + i * (I::LEN + 2);
        exp[o..o + I::LEN].copy_from_slice(ips[i].bytes());
        put16(&mut exp, o + I::LEN, ports[i]);
        i += 1;
    }
    assert!(eq_bytes(&buf, &exp, 80), "announce reply bytes == BEP15");
    let back = Response::parse_bytes(&buf[..l], I::V4);
    match &back {
        Ok(b) => assert!(*b == r, "announce reply round-trip"),
        Err(_) => assert!(false, "announce reply round-trip rejected"),
    }
    std::mem::forget(back);
    std::mem::forget(r);
    std::mem::forget(ips);
}

fn any_v4() -> Ipv4AddrBytes {
    Ipv4AddrBytes(kani::any())
}
fn any_v6() -> Ipv6AddrBytes {
    Ipv6AddrBytes(kani::any())
}

macro_rules! ann_resp {
    ($name:ident, $ip:ty, $mk:ident, $n:literal) => {
        #[kani::proof]
        #[kani::unwind(22)]
        #[kani::stub(std::string::String::from_utf8_lossy, lossy_stub)]
        fn $name() {
            announce_response::<$ip, $n>($mk);
        }
    };
}
ann_resp!(c13_announce_response_v4_n0, Ipv4AddrBytes, any_v4, 0);
ann_resp!(c13_announce_response_v4_n1, Ipv4AddrBytes, any_v4, 1);
ann_resp!(c13_announce_response_v4_n3, Ipv4AddrBytes, any_v4, 3);
ann_resp!(c13_announce_response_v6_n0, Ipv6AddrBytes, any_v6, 0);
ann_resp!(c13_announce_response_v6_n1, Ipv6AddrBytes, any_v6, 1);
ann_resp!(c13_announce_response_v6_n3, Ipv6AddrBytes, any_v6, 3);

fn scrape_response<const N: usize>() {
    let st: [(i32, i32, i32); N] = kani::any();
    let tid: i32 = kani::any();
    let mut v = Vec::with_capacity(N);
    let mut i = 0;
    while i < N {
        v.push(TorrentScrapeStatistics {
            seeders: NumberOfPeers::new(st[i].0),
            completed: NumberOfDownloads::new(st[i].1),
            leechers: NumberOfPeers::new(st[i].2),
        });
        i += 1;
    }
    let r = Response::Scrape(ScrapeResponse {
        transaction_id: TransactionId::new(tid),
        torrent_stats: v,
    });
    let mut buf = [0xAAu8; 48];
    let mut c = Cursor::new(&mut buf[..]);
    r.write_bytes(&mut c).unwrap();
    let l = 8 + 12 * N;
    assert!(c.position() as usize == l, "scrape reply length 8+12n");
    let mut exp = [0xAAu8; 48];
    put32(&mut exp, 0, 2);
    put32(&mut exp, 4, tid as u32);
    let mut i = 0;
    while i < N {
        put32(&mut exp, 8 + 12 * i, st[i].0 as u32);
        put32(&mut exp, 12 + 12 * i, st[i].1 as u32);
        put32(&mut exp, 16 + 12 * i, st[i].2 as u32);
        i += 1;
    }
    assert!(eq_bytes(&buf, &exp, 48), "scrape reply bytes == BEP15 (seeders, completed, leechers)");
    let ipv4: bool = kani::any();
    let back = Response::parse_bytes(&buf[..l], ipv4);
    match &back {
        Ok(b) => assert!(*b == r, "scrape reply round-trip"),
        Err(_) => assert!(false, "scrape reply round-trip rejected"),
    }
    std::mem::forget(back);
    std::mem::forget(r);
}

macro_rules! scr_resp {
    ($name:ident, $n:literal) => {
        #[kani::proof]
        #[kani::unwind(5)]
        #[kani::stub(std::string::String::from_utf8_lossy, lossy_stub)]
        fn $name() {
            scrape_response::<$n>();
        }
    };
}
scr_resp!(c13_scrape_response_n0, 0);
scr_resp!(c13_scrape_response_n1, 1);
scr_resp!(c13_scrape_response_n3, 3);

fn error_response(msg: &'static str) {
    let tid: i32 = kani::any();
    let r = Response::Error(ErrorResponse {
        transaction_id: TransactionId::new(tid),
        message: msg.into(),
    });
    let mut buf = [0xAAu8; 40];
    let mut c = Cursor::new(&mut buf[..]);
    r.write_bytes(&mut c).unwrap();
    let l = 8 + msg.len();
    assert!(c.position() as usize == l, "error reply length 8+len");
    assert!(be32(&buf, 0) == 3, "error reply action 3");
    assert!(be32(&buf, 4) == tid as u32, "error reply transaction id");
    let m = msg.as_bytes();
    let i: usize = kani::any();
    kani::assume(i < m.len());
    assert!(buf[8 + i] == m[i], "error message byte");
    assert!(buf[l] == 0xAA, "nothing written past the message");
}

#[kani::proof]
#[kani::unwind(5)]
fn c13_error_response_encode_a() {
    error_response("Info hash not allowed");
}
#[kani::proof]
#[kani::unwind(5)]
fn c13_error_response_encode_b() {
    error_response("x");
}

#[cfg(verif_pb_c13)]
include!(env!("VERIF_PLAYBACK_FILE"));
