#!/bin/bash
# usage: mut-test.sh <seeded-id> <check-id> [extra ./check args]   (applies seeded/<id>/patch.diff to /repo, runs the check, reverts)
set -u
ID=$1; CHK=$2; shift 2
cd /repo || exit 3
if [ -n "$(git status --porcelain)" ]; then echo "/repo not clean; refusing"; exit 3; fi
git apply /verif/seeded/$ID/patch.diff || { echo "patch does not apply"; exit 3; }
cd /verif
./check $CHK --no-evidence "$@"; RC=$?
cd /repo && git apply -R /verif/seeded/$ID/patch.diff
[ -z "$(git status --porcelain)" ] || echo "WARNING: /repo not clean after revert"
echo "mut-test $ID vs $CHK: exit $RC"
exit $RC
