//! C14: HTTP wire codec. Identifiers (bodies mounted in the crate's private utils module) and
//! reply writers against an independent bencode encoder.
use std::collections::BTreeMap;
use std::io::Cursor;
use std::net::{Ipv4Addr, Ipv6Addr};

use aquatic_http_protocol::common::InfoHash;
use aquatic_http_protocol::response::*;
use aquatic_http_protocol::verif_utils_harness as hu;

use crate::bencode_ref::Out;

#[kani::proof]
#[kani::unwind(22)]
#[kani::stub(std::backtrace::Backtrace::capture, crate::backtrace_stub)]
#[kani::stub(alloc::fmt::format, crate::format_stub)]
fn c14_id_roundtrip() {
    hu::c14_id_roundtrip();
}

macro_rules! dec {
    ($name:ident, $n:literal, $c:literal) => {
        #[kani::proof]
        #[kani::unwind(23)]
        #[kani::stub(std::backtrace::Backtrace::capture, crate::backtrace_stub)]
        #[kani::stub(alloc::fmt::format, crate::format_stub)]
        fn $name() {
            hu::c14_urldecode_ref::<$n>($c);
        }
    };
}
// last argument: unit classes (2 = raw ASCII | %XY; 3 = also two-byte chars U+0080..U+07FF)
dec!(c14_urldecode_n0, 0, 3);
dec!(c14_urldecode_n1, 1, 3);
dec!(c14_urldecode_n3_wide, 3, 3);
dec!(c14_urldecode_n19, 19, 2);
dec!(c14_urldecode_n20, 20, 2);
dec!(c14_urldecode_n21, 21, 2);
dec!(c14_urldecode_n20_wide, 20, 3);

#[kani::proof]
#[kani::unwind(23)]
#[kani::stub(std::backtrace::Backtrace::capture, crate::backtrace_stub)]
#[kani::stub(alloc::fmt::format, crate::format_stub)]
fn c14_urldecode_one_free_front() {
    hu::c14_urldecode_one_free(true);
}
#[kani::proof]
#[kani::unwind(23)]
#[kani::stub(std::backtrace::Backtrace::capture, crate::backtrace_stub)]
#[kani::stub(alloc::fmt::format, crate::format_stub)]
fn c14_urldecode_one_free_back() {
    hu::c14_urldecode_one_free(false);
}

macro_rules! tail {
    ($name:ident, $t:literal) => {
        #[kani::proof]
        #[kani::unwind(26)]
        #[kani::stub(std::backtrace::Backtrace::capture, crate::backtrace_stub)]
        #[kani::stub(alloc::fmt::format, crate::format_stub)]
        fn $name() {
            hu::c14_urldecode_tail::<$t>();
        }
    };
}
#[kani::proof]
#[kani::unwind(23)]
#[kani::stub(std::backtrace::Backtrace::capture, crate::backtrace_stub)]
#[kani::stub(alloc::fmt::format, crate::format_stub)]
fn c14_urldecode_trunc_1() {
    hu::c14_urldecode_trunc(false);
}
#[kani::proof]
#[kani::unwind(23)]
#[kani::stub(std::backtrace::Backtrace::capture, crate::backtrace_stub)]
#[kani::stub(alloc::fmt::format, crate::format_stub)]
fn c14_urldecode_trunc_2() {
    hu::c14_urldecode_trunc(true);
}
tail!(c14_urldecode_tail_1, 1);
tail!(c14_urldecode_tail_2, 2);
tail!(c14_urldecode_tail_3, 3);
tail!(c14_urldecode_tail_4, 4);

const MAXCOUNT: usize = 100_000;

fn any_count() -> usize {
    let c: usize = kani::any();
    kani::assume(c < MAXCOUNT);
    c
}

/// AnnounceResponse::write_bytes == canonical bencode of
/// {complete, incomplete, interval, peers (6 bytes each), peers6 (18 bytes each)[, warning message]}
/// with sorted keys, byte for byte, and the returned length is the number of bytes written.
fn announce_reply<const N4: usize, const N6: usize>() {
    // counters are concrete here (1-, 2- and 4-digit) so that every write position is concrete
    // for CBMC; decimal formatting of arbitrary counters is checked by c14_counter_format
    let (complete, incomplete, interval) = (7usize, 42usize, 1800usize);
    // peers as separate scalars-of-arrays (a 2-D symbolic array read back by index gave Kani
    // counterexamples that do not reproduce natively)
    let (a4, b4): ([u8; 4], [u8; 4]) = (kani::any(), kani::any());
    let (pa4, pb4): (u16, u16) = (kani::any(), kani::any());
    let (a6, b6): ([u8; 16], [u8; 16]) = (kani::any(), kani::any());
    let (pa6, pb6): (u16, u16) = (kani::any(), kani::any());
    let q4a = ResponsePeer { ip_address: Ipv4Addr::from(a4), port: pa4 };
    let q4b = ResponsePeer { ip_address: Ipv4Addr::from(b4), port: pb4 };
    let q6a = ResponsePeer { ip_address: Ipv6Addr::from(a6), port: pa6 };
    let q6b = ResponsePeer { ip_address: Ipv6Addr::from(b6), port: pb6 };
    let peers = match N4 {
        0 => Vec::new(),
        1 => vec![q4a],
        _ => vec![q4a, q4b],
    };
    let peers6 = match N6 {
        0 => Vec::new(),
        1 => vec![q6a],
        _ => vec![q6a, q6b],
    };
    let r = AnnounceResponse {
        announce_interval: interval,
        complete,
        incomplete,
        peers: ResponsePeerListV4(peers),
        peers6: ResponsePeerListV6(peers6),
        warning_message: None,
    };
    let mut buf = [0xAAu8; 160];
    let mut c = Cursor::new(&mut buf[..]);
    let n = r.write_bytes(&mut c).unwrap();
    assert!(n as u64 == c.position(), "returned length != bytes written");

    let mut e = Out::<160>::new();
    e.raw(b"d");
    e.bytes(b"complete");
    e.int(complete as u64);
    e.bytes(b"incomplete");
    e.int(incomplete as u64);
    e.bytes(b"interval");
    e.int(interval as u64);
    e.bytes(b"peers");
    e.dec((6 * N4) as u64);
    e.raw(b":");
    // explicit per-peer code: indexing an array of arrays (`ip4[i]`) is mis-modelled by Kani 0.68
    if N4 > 0 {
        e.raw(&a4);
        e.raw(&[(pa4 >> 8) as u8, pa4 as u8]);
    }
    if N4 > 1 {
        e.raw(&b4);
        e.raw(&[(pb4 >> 8) as u8, pb4 as u8]);
    }
    e.bytes(b"peers6");
    e.dec((18 * N6) as u64);
    e.raw(b":");
    if N6 > 0 {
        e.raw(&a6);
        e.raw(&[(pa6 >> 8) as u8, pa6 as u8]);
    }
    if N6 > 1 {
        e.raw(&b6);
        e.raw(&[(pb6 >> 8) as u8, pb6 as u8]);
    }
    e.raw(b"e");
    assert!(n == e.n, "announce reply length != canonical bencode length");

    let k: usize = kani::any();
    kani::assume(k < 160);
    assert!(buf[k] == e.b[k], "announce reply byte != canonical bencode");
    std::mem::forget(r);
}

macro_rules! ann {
    ($name:ident, $a:literal, $b:literal) => {
        #[kani::proof]
        #[kani::unwind(22)]
        fn $name() {
            announce_reply::<$a, $b>();
        }
    };
}
ann!(c14_announce_reply_0_0, 0, 0);
ann!(c14_announce_reply_2_0, 2, 0);
ann!(c14_announce_reply_0_2, 0, 2);
ann!(c14_announce_reply_1_1, 1, 1);

/// ScrapeResponse::write_bytes == {"files": {hash: {complete, downloaded(0), incomplete}}} with
/// hashes in ascending byte order.
fn scrape_reply<const N: usize>() {
    let hs: [[u8; 20]; N] = kani::any();
    let st: [(usize, usize); N] = kani::any();
    let mut files = BTreeMap::new();
    let mut i = 0;
    while i < N {
        kani::assume(st[i].0 < 10 && st[i].1 >= 10 && st[i].1 < 100);
        // strictly ascending keys: the harness fixes the order, the BTreeMap must keep it
        if i > 0 {
            kani::assume(hs[i - 1] < hs[i]);
        }
        files.insert(InfoHash(hs[i]), ScrapeStatistics { complete: st[i].0, incomplete: st[i].1, downloaded: 0 });
        i += 1;
    }
    let r = ScrapeResponse { files };
    let mut buf = [0xAAu8; 200];
    let mut c = Cursor::new(&mut buf[..]);
    let n = r.write_bytes(&mut c).unwrap();
    assert!(n as u64 == c.position(), "returned length != bytes written");
    let mut e = Out::<200>::new();
    e.raw(b"d");
    e.bytes(b"files");
    e.raw(b"d");
    let mut i = 0;
    while i < N {
        e.bytes(&hs[i]);
        e.raw(b"d");
        e.bytes(b"complete");
        e.int(st[i].0 as u64);
        e.bytes(b"downloaded");
        e.int(0);
        e.bytes(b"incomplete");
        e.int(st[i].1 as u64);
        e.raw(b"e");
        i += 1;
    }
    e.raw(b"ee");
    assert!(n == e.n, "scrape reply length != canonical bencode length");
    let k: usize = kani::any();
    kani::assume(k < 200);
    assert!(buf[k] == e.b[k], "scrape reply byte != canonical bencode");
    std::mem::forget(r);
}

#[kani::proof]
#[kani::unwind(22)]
fn c14_scrape_reply_0() {
    scrape_reply::<0>();
}
#[kani::proof]
#[kani::unwind(22)]
fn c14_scrape_reply_1() {
    scrape_reply::<1>();
}
#[kani::proof]
#[kani::unwind(22)]
fn c14_scrape_reply_2() {
    scrape_reply::<2>();
}

/// Decimal formatting of a counter inside a reply: FailureResponse-free, single field. The
/// announce writer's first field is `complete`: "d8:completei<decimal>e..." - compare the digits
/// with the reference formatter for every value below MAXCOUNT.
#[kani::proof]
#[kani::unwind(22)]
fn c14_counter_format() {
    let v = any_count();
    let r = AnnounceResponse {
        announce_interval: 0,
        complete: v,
        incomplete: 0,
        peers: ResponsePeerListV4(Vec::new()),
        peers6: ResponsePeerListV6(Vec::new()),
        warning_message: None,
    };
    let mut buf = [0xAAu8; 96];
    let mut c = Cursor::new(&mut buf[..]);
    let n = r.write_bytes(&mut c).unwrap();
    let mut e = Out::<96>::new();
    e.raw(b"d");
    e.bytes(b"complete");
    e.int(v as u64);
    e.bytes(b"incomplete");
    e.int(0);
    e.bytes(b"interval");
    e.int(0);
    e.bytes(b"peers");
    e.bytes(b"");
    e.bytes(b"peers6");
    e.bytes(b"");
    e.raw(b"e");
    assert!(n == e.n, "reply length with an arbitrary counter");
    let k: usize = kani::any();
    kani::assume(k < 96);
    assert!(buf[k] == e.b[k], "decimal digits of a counter differ from the reference formatter");
    kani::cover!(v >= 10000, "five digits");
    kani::cover!(v < 10, "one digit");
    std::mem::forget(r);
}

#[kani::proof]
#[kani::unwind(22)]
fn c14_failure_reply() {
    let r = FailureResponse::new("Info hash not allowed");
    let mut buf = [0xAAu8; 64];
    let mut c = Cursor::new(&mut buf[..]);
    let n = r.write_bytes(&mut c).unwrap();
    let mut e = Out::<64>::new();
    e.raw(b"d");
    e.bytes(b"failure reason");
    e.bytes(b"Info hash not allowed");
    e.raw(b"e");
    assert!(n == e.n, "failure reply length");
    let k: usize = kani::any();
    kani::assume(k < 64);
    assert!(buf[k] == e.b[k], "failure reply byte != canonical bencode");
    std::mem::forget(r);
}

#[cfg(verif_pb_c14)]
include!(env!("VERIF_PLAYBACK_FILE"));
