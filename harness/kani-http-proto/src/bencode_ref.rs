//! Independent bencode writer (reference): integers, byte strings, dictionary framing.
pub struct Out<const CAP: usize> {
    pub b: [u8; CAP],
    pub n: usize,
}
impl<const CAP: usize> Out<CAP> {
    pub fn new() -> Self {
        Self { b: [0xAA; CAP], n: 0 }
    }
    pub fn raw(&mut self, s: &[u8]) {
        let mut i = 0;
        while i < s.len() {
            self.b[self.n] = s[i];
            self.n += 1;
            i += 1;
        }
    }
    /// decimal digits of v, most significant first, no leading zeros
    pub fn dec(&mut self, v: u64) {
        let mut d = [0u8; 20];
        let mut k = 0;
        let mut x = v;
        loop {
            d[k] = b'0' + (x % 10) as u8;
            k += 1;
            x /= 10;
            if x == 0 {
                break;
            }
        }
        while k > 0 {
            k -= 1;
            self.b[self.n] = d[k];
            self.n += 1;
        }
    }
    pub fn int(&mut self, v: u64) {
        self.raw(b"i");
        self.dec(v);
        self.raw(b"e");
    }
    pub fn bytes(&mut self, s: &[u8]) {
        self.dec(s.len() as u64);
        self.raw(b":");
        self.raw(s);
    }
}
