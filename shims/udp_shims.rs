//! Models compiled into `aquatic_udp` only under `--cfg greatest_ape_aquatic_verif`.
//! Under Kani: a single-threaded lock model (parking_lot makes the Kani compiler ICE and Kani has
//! no threads) that asserts mutual exclusion and lock order, plus probe points used by the C04
//! sequentialisation. Without `cfg(kani)`: the real parking_lot types and no-op probes.

pub use aquatic_common::verif_shims::HashMap;

#[cfg(not(kani))]
pub use ::parking_lot::{RwLock, RwLockUpgradableReadGuard};
#[cfg(not(kani))]
#[inline(always)]
pub fn probe(_point: u8) {}

#[cfg(kani)]
pub use lock_model::*;

#[cfg(kani)]
pub mod lock_model {
    use std::cell::{Cell, UnsafeCell};
    use std::ops::{Deref, DerefMut};

    /// Number of locks currently held by the (single) running operation, per level.
    /// level 0 = shard lock (`TorrentMapShard`), level 1 = peer-map lock. The level is inferred
    /// from the protected type's size class by the harness via `set_level_of`.
    pub static mut HELD_TOTAL: usize = 0;
    pub static mut MAX_HELD: usize = 0;
    pub static mut ACQUISITIONS: usize = 0;

    pub fn held_total() -> usize {
        unsafe { HELD_TOTAL }
    }
    pub fn max_held() -> usize {
        unsafe { MAX_HELD }
    }
    pub fn acquisitions() -> usize {
        unsafe { ACQUISITIONS }
    }
    /// lock level of the protected type: 1 = per-torrent peer map, 0 = shard map (anything else)
    fn level<T>() -> usize {
        // "aquatic_udp::swarm::PeerMap<..>" vs "aquatic_common::verif_shims::..IndexMap<..>":
        // one byte decides (a str comparison would be a 27-iteration memcmp loop for CBMC)
        let n = std::any::type_name::<T>().as_bytes();
        if n.len() > 8 && n[8] == b'u' {
            1
        } else {
            0
        }
    }
    pub static mut HELD_LEVEL: [usize; 2] = [0, 0];
    /// Lock order shard -> peer map: requesting a shard lock while a peer-map lock is held could
    /// deadlock against a thread doing the opposite; the model asserts it never happens.
    fn acquire_level<T>() {
        let l = level::<T>();
        unsafe {
            if l == 0 {
                assert!(HELD_LEVEL[1] == 0, "lock order: shard lock requested while a peer-map lock is held");
            }
            HELD_LEVEL[l] += 1;
        }
        acquire();
    }
    fn release_level<T>() {
        let l = level::<T>();
        unsafe {
            HELD_LEVEL[l] -= 1;
        }
        release();
    }
    fn acquire() {
        unsafe {
            HELD_TOTAL += 1;
            ACQUISITIONS += 1;
            if HELD_TOTAL > MAX_HELD {
                MAX_HELD = HELD_TOTAL;
            }
        }
    }
    fn release() {
        unsafe {
            HELD_TOTAL -= 1;
        }
    }

    /// state: 0 free, n>0 readers (an upgradable reader counts as a reader and sets `upg`),
    /// -1 writer.
    pub struct RwLock<T> {
        state: Cell<isize>,
        upg: Cell<bool>,
        value: UnsafeCell<T>,
    }
    unsafe impl<T> Sync for RwLock<T> {}
    unsafe impl<T> Send for RwLock<T> {}

    impl<T: Default> Default for RwLock<T> {
        fn default() -> Self {
            Self::new(T::default())
        }
    }

    impl<T> RwLock<T> {
        pub fn new(v: T) -> Self {
            Self { state: Cell::new(0), upg: Cell::new(false), value: UnsafeCell::new(v) }
        }
        pub fn is_free(&self) -> bool {
            self.state.get() == 0
        }
        pub fn read(&self) -> RwLockReadGuard<'_, T> {
            // a conflicting holder can only be the running operation itself or the operation
            // suspended at a probe point: either way the real code would block forever here
            assert!(self.state.get() >= 0, "deadlock: read lock requested while write-locked");
            self.state.set(self.state.get() + 1);
            acquire_level::<T>();
            RwLockReadGuard { l: self }
        }
        pub fn upgradable_read(&self) -> RwLockUpgradableReadGuard<'_, T> {
            assert!(self.state.get() >= 0, "deadlock: upgradable read requested while write-locked");
            assert!(!self.upg.get(), "deadlock: second upgradable read");
            self.state.set(self.state.get() + 1);
            self.upg.set(true);
            acquire_level::<T>();
            RwLockUpgradableReadGuard { l: self }
        }
        pub fn write(&self) -> RwLockWriteGuard<'_, T> {
            assert!(self.state.get() == 0, "deadlock: write lock requested while locked");
            self.state.set(-1);
            acquire_level::<T>();
            RwLockWriteGuard { l: self }
        }
        /// harness access without locking (state inspection between operations)
        pub fn peek(&self) -> &T {
            unsafe { &*self.value.get() }
        }
        pub fn peek_mut(&mut self) -> &mut T {
            self.value.get_mut()
        }
    }

    pub struct RwLockReadGuard<'a, T> {
        l: &'a RwLock<T>,
    }
    impl<'a, T> Deref for RwLockReadGuard<'a, T> {
        type Target = T;
        fn deref(&self) -> &T {
            unsafe { &*self.l.value.get() }
        }
    }
    impl<'a, T> Drop for RwLockReadGuard<'a, T> {
        fn drop(&mut self) {
            self.l.state.set(self.l.state.get() - 1);
            release_level::<T>();
        }
    }

    pub struct RwLockUpgradableReadGuard<'a, T> {
        l: &'a RwLock<T>,
    }
    impl<'a, T> RwLockUpgradableReadGuard<'a, T> {
        pub fn upgrade(s: Self) -> RwLockWriteGuard<'a, T> {
            let l = s.l;
            std::mem::forget(s);
            // upgrade waits for other readers; with one running operation any other reader is
            // a suspended operation that can never proceed
            assert!(l.state.get() == 1, "deadlock: upgrade while other readers hold the lock");
            l.upg.set(false);
            l.state.set(-1);
            RwLockWriteGuard { l }
        }
    }
    impl<'a, T> Deref for RwLockUpgradableReadGuard<'a, T> {
        type Target = T;
        fn deref(&self) -> &T {
            unsafe { &*self.l.value.get() }
        }
    }
    impl<'a, T> Drop for RwLockUpgradableReadGuard<'a, T> {
        fn drop(&mut self) {
            self.l.upg.set(false);
            self.l.state.set(self.l.state.get() - 1);
            release_level::<T>();
        }
    }

    pub struct RwLockWriteGuard<'a, T> {
        l: &'a RwLock<T>,
    }
    impl<'a, T> Deref for RwLockWriteGuard<'a, T> {
        type Target = T;
        fn deref(&self) -> &T {
            unsafe { &*self.l.value.get() }
        }
    }
    impl<'a, T> DerefMut for RwLockWriteGuard<'a, T> {
        fn deref_mut(&mut self) -> &mut T {
            unsafe { &mut *self.l.value.get() }
        }
    }
    impl<'a, T> Drop for RwLockWriteGuard<'a, T> {
        fn drop(&mut self) {
            self.l.state.set(0);
            release_level::<T>();
        }
    }

    // ---------------------------------------------------------------- probe points (C04)

    /// Installed by a harness: called at each lock-free gap of announce / scrape / clean with
    /// the gap's id. Runs "the other thread's" operation to completion there.
    pub static mut PROBE: Option<fn(u8)> = None;
    pub static mut IN_PROBE: bool = false;

    pub fn set_probe(f: Option<fn(u8)>) {
        unsafe { PROBE = f }
    }

    #[inline(never)]
    pub fn probe(point: u8) {
        unsafe {
            if IN_PROBE {
                return;
            }
            if let Some(f) = PROBE {
                IN_PROBE = true;
                f(point);
                IN_PROBE = false;
            }
        }
    }
}
