#!/bin/bash
# runs the seeded changes against the checks expected to catch them (sequential: /repo is shared)
cd /verif
run() { ./mut-test.sh "$@" > logs/mut.$1.$2.out 2>&1; echo "$1 vs $2 ($*): exit $? :: $(grep -c '^VIOLATION' logs/mut.$1.$2.out) violation lines"; }
run C13 C13 --only announce_request_encode
run C05 C05
run C15b C15 --only id_decode_n20
run C14 C14 --only one_free
run C18b C18
run C01 C01 --only large_n3_state
run C07 C07 --only small_n4 --tier thorough
run C02 C07 --only large_n5 --tier thorough
run C08b C08 --only c08_announce_n1
run C10 C08 --only c08_announce_n1
run C09 C09 --only c09_answer_n1
run C06 C06 --only c06_announce --tier thorough
run C11 C11
run C20 C20
