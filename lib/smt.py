"""C18: 'every reply fits its buffers' as SMT queries over configuration space.

For each (tracker, back end, reply kind) an SMT-LIB2 problem (QF_LIA) is GENERATED from constants
read out of /repo's current sources (buffer sizes, config defaults, start-up validation bounds)
and from the per-element reply-size coefficients whose linear form is established on the real
writers by the Kani harnesses of C13 / C14. The query asks:

    exists an accepted configuration, and a request the tracker accepts under it,
    such that the computed reply is longer than the buffer it is written to?

z3 decides; cvc5 must agree. `unsat` = no such configuration (holds for ALL configurations, no
bound). `sat` = concrete configuration + element count, which is replayed natively: the real
writer is run with that many elements into a buffer of the real size (replay/ crate).
"""
import json
import os
import re
import subprocess
import time

REPO = "/repo"
VERIF = os.path.dirname(os.path.dirname(os.path.abspath(__file__)))


def _read(p):
    return open(os.path.join(REPO, p)).read()


def _const(src, name):
    m = re.search(r"const\s+%s\s*:\s*usize\s*=\s*([0-9_]+)\s*;" % name, src)
    if not m:
        raise ValueError("constant %s not found" % name)
    return int(m.group(1).replace("_", ""))


def _default(src, struct, field):
    """value of `field` in `impl Default for <struct>`"""
    m = re.search(r"impl Default for %s\s*\{(.*?)\n\}" % struct, src, re.S)
    if not m:
        raise ValueError("Default impl of %s not found" % struct)
    f = re.search(r"\b%s\s*:\s*([0-9_*\s]+?)\s*," % field, m.group(1))
    if not f:
        raise ValueError("default of %s.%s not found" % (struct, field))
    return eval(f.group(1).replace("_", ""), {"__builtins__": {}})


def _field_type(src, struct, field):
    m = re.search(r"pub struct %s\s*\{(.*?)\n\}" % struct, src, re.S)
    f = re.search(r"pub %s\s*:\s*(\w+)" % field, m.group(1)) if m else None
    if not f:
        raise ValueError("type of %s.%s not found" % (struct, field))
    return f.group(1)


TYPE_MAX = {"u8": 255, "u16": 65535, "u32": 2 ** 32 - 1, "usize": 2 ** 64 - 1, "u64": 2 ** 64 - 1}


def _validation_bounds(src, consts):
    """Upper bounds a tracker's run() puts on config.protocol.<field> before starting.
    Recognised shape (what a validation patch would look like):
        if config.protocol.<field> > <expr> { ... return Err / bail! ...
    <expr> may use integer literals, known constants and + - * / ( ).
    Anything mentioning a protocol field in a comparison that cannot be parsed -> ValueError."""
    bounds = {}
    m = re.search(r"pub fn run\(.*?\n\}", src, re.S)
    body = m.group(0) if m else src
    for cm in re.finditer(r"config\.protocol\.(\w+)\s*(>=|>)\s*([^{]+?)\s*\{", body):
        field, op, expr = cm.group(1), cm.group(2), cm.group(3)
        expr = re.sub(r"\b(?:crate::|common::|self::)+", "", expr)
        expr = re.sub(r"\bas\s+usize\b", "", expr)
        try:
            val = int(eval(expr.replace("_", "").strip() if expr.strip()[0].isdigit() else expr, {"__builtins__": {}}, dict(consts)))
        except Exception:
            raise ValueError("cannot evaluate validation bound %r for %s" % (expr, field))
        ub = val if op == ">" else val - 1
        bounds[field] = min(ub, bounds.get(field, ub))
    return bounds


def extract():
    """All numbers the encodings use, read from the current working tree."""
    udp_common = _read("crates/udp/src/common.rs")
    udp_cfg = _read("crates/udp/src/config.rs")
    udp_lib = _read("crates/udp/src/lib.rs")
    uring = _read("crates/udp/src/workers/socket/uring/mod.rs")
    http_conn = _read("crates/http/src/workers/socket/connection.rs")
    http_cfg = _read("crates/http/src/config.rs")
    http_lib = _read("crates/http/src/lib.rs")
    c = {}
    c["BUFFER_SIZE"] = _const(udp_common, "BUFFER_SIZE")
    c["RESPONSE_BUF_LEN"] = _const(uring, "RESPONSE_BUF_LEN")
    c["REQUEST_BUF_LEN"] = _const(uring, "REQUEST_BUF_LEN")
    c["udp_max_response_peers_default"] = _default(udp_cfg, "ProtocolConfig", "max_response_peers")
    c["udp_max_scrape_torrents_default"] = _default(udp_cfg, "ProtocolConfig", "max_scrape_torrents")
    c["udp_max_response_peers_type_max"] = TYPE_MAX[_field_type(udp_cfg, "ProtocolConfig", "max_response_peers")]
    c["udp_max_scrape_torrents_type_max"] = TYPE_MAX[_field_type(udp_cfg, "ProtocolConfig", "max_scrape_torrents")]
    c["REQUEST_BUFFER_SIZE"] = _const(http_conn, "REQUEST_BUFFER_SIZE")
    c["RESPONSE_BUFFER_SIZE"] = _const(http_conn, "RESPONSE_BUFFER_SIZE")
    hdr = 0
    for part in ("RESPONSE_HEADER_A", "RESPONSE_HEADER_B", "RESPONSE_HEADER_C"):
        m = re.search(r'const\s+%s\s*:\s*&\[u8\]\s*=\s*b"((?:[^"\\]|\\.)*)"' % part, http_conn)
        if not m:
            raise ValueError("%s not found" % part)
        hdr += len(bytes(m.group(1), "utf-8").decode("unicode_escape"))
    c["HTTP_HEADER_LEN"] = hdr
    c["http_max_peers_default"] = _default(http_cfg, "ProtocolConfig", "max_peers")
    c["http_max_scrape_torrents_default"] = _default(http_cfg, "ProtocolConfig", "max_scrape_torrents")
    c["http_max_peers_type_max"] = TYPE_MAX[_field_type(http_cfg, "ProtocolConfig", "max_peers")]
    c["http_max_scrape_torrents_type_max"] = TYPE_MAX[_field_type(http_cfg, "ProtocolConfig", "max_scrape_torrents")]
    consts = {k: v for k, v in c.items() if k.isupper()}
    c["udp_bounds"] = _validation_bounds(udp_lib, consts)
    c["http_bounds"] = _validation_bounds(http_lib, consts)
    return c


# reply-size models (established on the real writers by Kani: C13 harnesses c13_*_response_*,
# C14 harnesses c14_*_reply_*; linear in the element count because the writers loop / memcpy
# per element). All sizes in bytes.
UDP_ANNOUNCE_FIXED = 20
UDP_PEER = {"v4": 6, "v6": 18}
UDP_SCRAPE_FIXED = 8
UDP_SCRAPE_ENTRY = 12
UDP_SCRAPE_REQ_FIXED = 16
UDP_SCRAPE_REQ_HASH = 20
UDP_IP_UDP_HEADERS = 0  # REQUEST_BUF_LEN is payload space per recv buffer (io_uring provided buffers)


def digits(v, name):
    """SMT definition: name = number of decimal digits of v (1..20) for 0 <= v < 2^64"""
    lines = ["(declare-const %s Int)" % name]
    expr = "20"
    for d in range(19, 0, -1):
        expr = "(ite (< %s %d) %d %s)" % (v, 10 ** d, d, expr)
    lines.append("(assert (= %s %s))" % (name, expr))
    return lines


def queries(c):
    """name -> (smt text, model vars, description, buffer, default-config flag builder)"""
    q = {}

    def udp_announce(backend, fam, buf):
        ub = min(c["udp_max_response_peers_type_max"], c["udp_bounds"].get("max_response_peers", 10 ** 30))
        return [
            "(declare-const max_response_peers Int)", "(declare-const n Int)",
            "(assert (and (>= max_response_peers 0) (<= max_response_peers %d)))" % ub,
            "; the reply holds at most min(numwant, max_response_peers) peers (C02)",
            "(assert (and (>= n 0) (<= n max_response_peers)))",
            "(assert (> (+ %d (* %d n)) %d))" % (UDP_ANNOUNCE_FIXED, UDP_PEER[fam], buf),
            "(minimize max_response_peers)",
        ], ["max_response_peers", "n"], {"max_response_peers": c["udp_max_response_peers_default"]}

    for fam in ("v4", "v6"):
        q["udp-mio-announce-" + fam] = udp_announce("mio", fam, c["BUFFER_SIZE"]) + (
            "UDP mio: announce reply %s = 20+%dn bytes vs BUFFER_SIZE=%d" % (fam, UDP_PEER[fam], c["BUFFER_SIZE"]), c["BUFFER_SIZE"])
        q["udp-uring-announce-" + fam] = udp_announce("uring", fam, c["RESPONSE_BUF_LEN"]) + (
            "UDP io_uring: announce reply %s = 20+%dn bytes vs RESPONSE_BUF_LEN=%d" % (fam, UDP_PEER[fam], c["RESPONSE_BUF_LEN"]), c["RESPONSE_BUF_LEN"])

    def udp_scrape(buf, reqbuf):
        ub = min(c["udp_max_scrape_torrents_type_max"], c["udp_bounds"].get("max_scrape_torrents", 10 ** 30))
        return [
            "(declare-const max_scrape_torrents Int)", "(declare-const k Int)",
            "(assert (and (>= max_scrape_torrents 0) (<= max_scrape_torrents %d)))" % ub,
            "(assert (and (>= k 1) (<= k max_scrape_torrents)))",
            "; the request carrying k hashes must itself fit the receive buffer",
            "(assert (<= (+ %d (* %d k)) %d))" % (UDP_SCRAPE_REQ_FIXED, UDP_SCRAPE_REQ_HASH, reqbuf),
            "(assert (> (+ %d (* %d k)) %d))" % (UDP_SCRAPE_FIXED, UDP_SCRAPE_ENTRY, buf),
        ], ["max_scrape_torrents", "k"], {"max_scrape_torrents": c["udp_max_scrape_torrents_default"]}

    q["udp-mio-scrape"] = udp_scrape(c["BUFFER_SIZE"], c["BUFFER_SIZE"]) + ("UDP mio: scrape reply 8+12k vs BUFFER_SIZE", c["BUFFER_SIZE"])
    q["udp-uring-scrape"] = udp_scrape(c["RESPONSE_BUF_LEN"], c["REQUEST_BUF_LEN"]) + ("UDP io_uring: scrape reply 8+12k vs RESPONSE_BUF_LEN (request <= REQUEST_BUF_LEN)", c["RESPONSE_BUF_LEN"])

    avail = c["RESPONSE_BUFFER_SIZE"] - c["HTTP_HEADER_LEN"] - 2  # body must leave room for the trailing CRLF

    def http_announce(fam):
        per = 6 if fam == "v4" else 18
        ub = min(c["http_max_peers_type_max"], c["http_bounds"].get("max_peers", 10 ** 30))
        lines = [
            "(declare-const max_peers Int)", "(declare-const n Int)",
            "; decimal digit counts of the three usize counters (any value 0..2^64-1 => 1..20 digits)",
            "(declare-const dc Int)", "(declare-const di Int)", "(declare-const dv Int)",
            "(assert (and (>= max_peers 0) (<= max_peers %d)))" % ub,
            "(assert (and (>= n 0) (<= n max_peers)))",
            "; conservative: counters with the fewest digits (0..9); longer counters only make it worse",
            "(assert (and (= dc 1) (= di 1) (= dv 1)))",
        ]
        lines += ["(declare-const plen Int)", "(assert (= plen (* %d n)))" % per] + digits("plen", "dp")
        other = "2" if fam == "v4" else "1"  # decimal digits of the other (empty) list's length prefix: "0"
        # d8:completei<c>e10:incompletei<i>e8:intervali<v>e5:peers<len>:<..>6:peers6<len>:<..>e
        lines.append("(declare-const body Int)")
        lines.append("(assert (= body (+ 12 dc 15 di 12 dv 8 dp 1 plen 8 1 1 1)))")
        lines.append("(assert (> body %d))" % avail)
        lines.append("(minimize max_peers)")
        return lines, ["max_peers", "n", "dc", "di", "dv", "body"], {"max_peers": c["http_max_peers_default"]}

    for fam in ("v4", "v6"):
        q["http-announce-" + fam] = http_announce(fam) + ("HTTP: announce body (%s peers) vs RESPONSE_BUFFER_SIZE-%d-2=%d" % (fam, c["HTTP_HEADER_LEN"], avail), avail)

    ub = min(c["http_max_scrape_torrents_type_max"], c["http_bounds"].get("max_scrape_torrents", 10 ** 30))
    lines = [
        "(declare-const max_scrape_torrents Int)", "(declare-const k Int)", "(declare-const dsum Int)",
        "(assert (and (>= max_scrape_torrents 0) (<= max_scrape_torrents %d)))" % ub,
        "(assert (and (>= k 1) (<= k max_scrape_torrents)))",
        "; request: 'GET /scrape?' + k*('info_hash='+20 raw unreserved chars) + (k-1)*'&' + ' HTTP/1.1 CRLF CRLF' must be shorter than the request buffer",
        "(assert (< (+ 12 (* 30 k) (- k 1) 13) %d))" % c["REQUEST_BUFFER_SIZE"],
        "; reply: d5:filesd + k*(3+20+12+dc+31+di+2) + ee ; each counter has >= 1 digit",
        "; two counters per torrent, 1..20 decimal digits each",
        "(assert (and (>= dsum (* 2 k)) (<= dsum (* 40 k))))",
        "(declare-const body Int)",
        "(assert (= body (+ 9 (* 68 k) dsum 2)))",
        "(assert (> body %d))" % avail,
        "(minimize k)",
        "(minimize dsum)",
    ]
    q["http-scrape"] = (lines, ["max_scrape_torrents", "k", "body"], {"max_scrape_torrents": c["http_max_scrape_torrents_default"]},
                        "HTTP: scrape body 11+k(68+digits) vs %d, request of k hashes must fit REQUEST_BUFFER_SIZE=%d" % (avail, c["REQUEST_BUFFER_SIZE"]), avail)
    return q


def solve(lines, model_vars, solver):
    text = "(set-option :produce-models true)\n" + "\n".join(l for l in lines if not l.startswith("(minimize") or solver == "z3") + "\n(check-sat)\n"
    text += "(get-value (%s))\n" % " ".join(model_vars)
    cmd = ["z3", "-in"] if solver == "z3" else ["cvc5", "--lang", "smt2", "--produce-models", "-"]
    if solver == "cvc5":
        text = "(set-logic QF_LIA)\n" + text
    t0 = time.time()
    p = subprocess.run(cmd, input=text, capture_output=True, text=True, timeout=120)
    out = p.stdout + p.stderr
    secs = time.time() - t0
    verdict = out.split()[0] if out.split() else "error"
    if verdict not in ("sat", "unsat"):
        return "error", {}, secs, text, out
    # an (error ...) line other than the get-value-after-unsat one makes the answer inconclusive
    errs = [l for l in out.splitlines() if "(error" in l and "model is not available" not in l and "cannot get value" not in l.lower() and "get-value" not in l.lower()]
    if errs:
        return "error", {}, secs, text, out
    model = {}
    if verdict == "sat":
        for m in re.finditer(r"\((\w+)\s+(\(?-?\s*\d+\)?)\)", out):
            model[m.group(1)] = int(m.group(2).replace("(", "").replace(")", "").replace(" ", ""))
    return verdict, model, secs, text, out


def native_replay(name, model, buf):
    """Run the real writer with the model's element count into a buffer of the real size."""
    kind = name
    n = model.get("n", model.get("k", 0))
    exe = os.path.join(os.environ.get("VERIF_TARGETS") or os.path.join(VERIF, ".targets"), "replay", "release", "c18-replay")
    if True:  # always rebuild: the replay must run the writers of /repo's current working tree
        env = dict(os.environ, CARGO_NET_OFFLINE="true", CARGO_TARGET_DIR=os.path.join(os.environ.get("VERIF_TARGETS") or os.path.join(VERIF, ".targets"), "replay"))
        env.pop("RUSTUP_TOOLCHAIN", None)
        src = "/repo/Cargo.lock"
        try:
            open(os.path.join(VERIF, "replay", "Cargo.lock"), "w").write(open(src).read())
        except OSError:
            pass
        b = subprocess.run(["cargo", "build", "--release", "--offline"], cwd=os.path.join(VERIF, "replay"), env=env, capture_output=True, text=True)
        if b.returncode != 0:
            return None, b.stderr[-1500:]
    p = subprocess.run([exe, kind, str(n), str(buf)], capture_output=True, text=True, timeout=60)
    return p.returncode == 1, (p.stdout + p.stderr)[-800:]


def run(h, known, prop):
    """Runner entry: one C18 query."""
    t0 = time.time()
    r = {"status": "inconclusive", "reason": "", "checks": 0, "failed": 0, "covers": 0, "covers_sat": 0, "solver_s": 0.0,
         "failed_checks": [], "wall_s": 0.0, "log": "", "harness": h["name"], "crate": h["crate"]}
    try:
        c = extract()
        qs = queries(c)
    except Exception as e:  # constants moved / unparsable validation code
        r["reason"] = "could not regenerate the encoding from the sources: %s" % e
        return r
    name = h["name"]
    lines, mvars, defaults, desc, buf = qs[name]
    os.makedirs(os.path.join(VERIF, "logs"), exist_ok=True)
    handled = []
    results = []
    # query A: does the DEFAULT configuration already overflow?  query B: does any accepted configuration?
    for variant in ("default", "any"):
        ls = list(lines)
        if variant == "default":
            ls += ["(assert (= %s %d))" % (k, v) for k, v in defaults.items()]
        vz, mz, sz, text, outz = solve(ls, mvars, "z3")
        vc, mc, sc, _, outc = solve(ls, mvars, "cvc5")
        open(os.path.join(VERIF, "logs", "c18.%s.%s.smt2" % (name, variant)), "w").write(text)
        r["checks"] += 1
        r["solver_s"] += sz + sc
        results.append((variant, vz, vc, mz))
        if vz not in ("sat", "unsat") or vc not in ("sat", "unsat") or vz != vc:
            r["reason"] = "solvers disagree or error on %s/%s: z3=%s cvc5=%s" % (name, variant, vz, vc)
            r["wall_s"] = round(time.time() - t0, 2)
            return r
        if vz == "sat":
            key = "%s|%s" % (name, "default-config" if variant == "default" else "unvalidated-config")
            chk = {"msg": key, "file": "", "line": 0, "func": desc, "model": mz}
            k = None
            for kf in known.get("findings", []):
                if kf.get("property") == prop and kf.get("key") == key:
                    k = kf
            if k:
                handled.append({"kind": "known", "key": key, "what": k.get("what", ""), "check": chk})
            else:
                rep, tail = native_replay(name, mz, buf)
                path = os.path.join(VERIF, "replays", "%s-%s-%s.json" % (prop, name, variant))
                os.makedirs(os.path.dirname(path), exist_ok=True)
                json.dump({"property": prop, "query": name, "variant": variant, "model": mz, "buffer": buf, "description": desc,
                           "constants": {k: v for k, v in c.items() if not isinstance(v, dict)}, "native_reproduced": rep, "native_output_tail": tail, "smt2": text},
                          open(path, "w"), indent=1)
                handled.append({"kind": "violation" if rep else "noreplay", "key": key, "check": chk, "replay": path, "tail": tail})
            r["failed"] += 1
            r["failed_checks"].append(chk)
    r["results"] = results
    r["constants"] = {k: v for k, v in c.items()}
    r["wall_s"] = round(time.time() - t0, 2)
    if r["failed"]:
        r["status"] = "failed"
        r["handled"] = handled
    else:
        r["status"] = "success"
    return r
