//! Kani harnesses over the real `aquatic_http_protocol` crate (C14, C12, C18 size lemmas).
#![allow(dead_code)]
#[cfg(kani)]
mod c14;
#[cfg(kani)]
mod bencode_ref;
#[cfg(kani)]
mod c14q;

#[cfg(kani)]
pub fn backtrace_stub() -> std::backtrace::Backtrace {
    std::backtrace::Backtrace::disabled()
}
#[cfg(kani)]
pub fn format_stub(_a: std::fmt::Arguments<'_>) -> String {
    String::new()
}
