//! Native (no Kani, real indexmap / hashbrown / rand) reproductions of WebTorrent storage
//! findings whose solver counterexample is too large for Kani's concrete-playback generator
//! (the C08 instance has 9M variables; kani-driver runs out of memory turning the trace into a
//! test). Each test drives aquatic_ws's real storage.rs (mounted in place) through its public
//! API with the input shape the solver reported, and FAILS when the defect is present.
#![allow(dead_code, unused_imports)]
#[path = "/repo/crates/ws/src/common.rs"]
pub mod common;
#[path = "/repo/crates/ws/src/config.rs"]
pub mod config;
pub mod workers {
    pub mod swarm {
        #[path = "/repo/crates/ws/src/workers/swarm/storage.rs"]
        pub mod storage;
    }
}

#[cfg(test)]
mod tests {
    use crate::common::*;
    use crate::config::Config;
    use crate::workers::swarm::storage::TorrentMaps;
    use aquatic_common::ServerStartInstant;
    use aquatic_ws_protocol::common::*;
    use aquatic_ws_protocol::incoming::{AnnounceEvent, AnnounceRequest};
    use aquatic_ws_protocol::outgoing::OutMessage;
    use rand::rngs::SmallRng;
    use rand::SeedableRng;

    fn req(h: [u8; 20], pid: [u8; 20], event: Option<AnnounceEvent>, left: Option<usize>) -> AnnounceRequest {
        AnnounceRequest {
            action: AnnounceAction::Announce,
            info_hash: InfoHash(h),
            peer_id: PeerId(pid),
            bytes_left: left,
            event,
            offers: None,
            numwant: None,
            answer: None,
            answer_to_peer_id: None,
            answer_offer_id: None,
        }
    }

    fn meta(consumer: u8, slot: u32) -> InMessageMeta {
        InMessageMeta {
            out_message_consumer_id: ConsumerId(consumer),
            connection_id: ConnectionId::from(slotmap::KeyData::from_ffi((1u64 << 32) | slot as u64)),
            ip_version: IpVersion::V4,
            pending_scrape_id: None,
        }
    }

    /// C08: a stored peer is owned by (socket worker, connection slot). Per-worker slot maps hand
    /// out the same slot keys, so another worker's connection with the same slot key must still be
    /// treated as a different connection: its announce with the victim's peer id must be ignored.
    #[test]
    fn c08_ownership_other_worker_same_slot() {
        let config = Config::default();
        let mut maps = TorrentMaps::new(0);
        let mut rng = SmallRng::seed_from_u64(1);
        let mut out = Vec::new();
        let start = ServerStartInstant::new();
        let (h, pid) = ([7u8; 20], [9u8; 20]);
        // owner: worker 0, slot 5
        maps.handle_announce_request(&config, &mut rng, &mut out, start, meta(0, 5), req(h, pid, Some(AnnounceEvent::Started), Some(0)));
        assert_eq!(out.len(), 1);
        out.clear();
        // attacker: worker 1, same slot index 5, same peer id, tries to stop the victim's entry
        maps.handle_announce_request(&config, &mut rng, &mut out, start, meta(1, 5), req(h, pid, Some(AnnounceEvent::Stopped), None));
        assert!(out.is_empty(), "announce with a peer id owned by another connection must get no reply");
        // and the victim's entry is still there: its own re-announce reports itself as seeder
        maps.handle_announce_request(&config, &mut rng, &mut out, start, meta(0, 5), req(h, pid, None, Some(0)));
        match &out[0].1 {
            OutMessage::AnnounceResponse(r) => assert_eq!((r.complete, r.incomplete), (1, 0)),
            _ => panic!("unexpected message"),
        }
    }

    /// C08: "an announce that uses an existing peer id from another connection has no effect on
    /// the entry - neither at once nor when that other connection later closes". The socket
    /// worker records the peer id of every announce a connection sends (also ignored ones) and
    /// names them all in ConnectionClosed; the storage must remove only entries the closed
    /// connection created.
    #[test]
    fn c08_close_of_non_owner_keeps_entry() {
        let config = Config::default();
        let mut maps = TorrentMaps::new(0);
        let mut rng = SmallRng::seed_from_u64(1);
        let mut out = Vec::new();
        let start = ServerStartInstant::new();
        let (h, pid) = ([7u8; 20], [9u8; 20]);
        let (owner, intruder) = (meta(0, 5), meta(0, 6));
        maps.handle_announce_request(&config, &mut rng, &mut out, start, owner, req(h, pid, Some(AnnounceEvent::Started), Some(0)));
        out.clear();
        // ignored announce from another connection using the victim's peer id ...
        maps.handle_announce_request(&config, &mut rng, &mut out, start, intruder, req(h, pid, None, Some(5)));
        assert!(out.is_empty());
        // ... which then closes: ConnectionClosed names (h, pid) with the intruder's identity
        maps.handle_connection_closed(InfoHash(h), PeerId(pid), IpVersion::V4, intruder.out_message_consumer_id, intruder.connection_id);
        maps.handle_announce_request(&config, &mut rng, &mut out, start, meta(0, 7), req(h, [3u8; 20], None, Some(5)));
        assert_eq!(counts(&out), (1, 1), "the victim's entry must survive the close of a connection that does not own it");
        out.clear();
        // the owner's own close removes it
        maps.handle_connection_closed(InfoHash(h), PeerId(pid), IpVersion::V4, owner.out_message_consumer_id, owner.connection_id);
        maps.handle_announce_request(&config, &mut rng, &mut out, start, meta(0, 7), req(h, [3u8; 20], None, Some(5)));
        assert_eq!(counts(&out), (0, 1));
    }

    fn counts(out: &[(OutMessageMeta, OutMessage)]) -> (usize, usize) {
        match &out.last().unwrap().1 {
            OutMessage::AnnounceResponse(r) => (r.complete, r.incomplete),
            _ => panic!("last message is not an announce reply"),
        }
    }

    /// C08: seeder -> leecher transitions keep the cached seeder count equal to the stored seeders,
    /// whatever form `left` takes (absent, positive).
    #[test]
    fn c08_seeder_to_leecher_counts() {
        let config = Config::default();
        let mut rng = SmallRng::seed_from_u64(1);
        let start = ServerStartInstant::new();
        for left in [None, Some(5usize)] {
            let mut maps = TorrentMaps::new(0);
            let mut out = Vec::new();
            let (h, a, b) = ([7u8; 20], [1u8; 20], [2u8; 20]);
            maps.handle_announce_request(&config, &mut rng, &mut out, start, meta(0, 1), req(h, a, Some(AnnounceEvent::Started), Some(0)));
            maps.handle_announce_request(&config, &mut rng, &mut out, start, meta(0, 2), req(h, b, Some(AnnounceEvent::Started), Some(9)));
            assert_eq!(counts(&out), (1, 1));
            out.clear();
            maps.handle_announce_request(&config, &mut rng, &mut out, start, meta(0, 1), req(h, a, None, left));
            assert_eq!(counts(&out), (0, 2), "cached seeder count != reference after seeder -> leecher with left = {:?}", left);
            out.clear();
            maps.handle_announce_request(&config, &mut rng, &mut out, start, meta(0, 1), req(h, a, None, Some(0)));
            assert_eq!(counts(&out), (1, 1), "cached seeder count != reference after leecher -> seeder");
        }
    }

    /// C10: every re-announce sets a fresh deadline, also seeder -> seeder and leecher -> leecher.
    #[test]
    fn c10_reannounce_refreshes_deadline() {
        use aquatic_common::access_list::AccessListArcSwap;
        use std::sync::Arc;
        use std::time::Duration;
        for left in [Some(0usize), Some(3usize)] {
            let mut config = Config::default();
            config.cleaning.max_peer_age = 3;
            let mut rng = SmallRng::seed_from_u64(1);
            let start = ServerStartInstant::new();
            let mut maps = TorrentMaps::new(0);
            let mut out = Vec::new();
            let (h, a) = ([7u8; 20], [1u8; 20]);
            maps.handle_announce_request(&config, &mut rng, &mut out, start, meta(0, 1), req(h, a, Some(AnnounceEvent::Started), left));
            std::thread::sleep(Duration::from_millis(2100));
            maps.handle_announce_request(&config, &mut rng, &mut out, start, meta(0, 1), req(h, a, None, left)); // fresh deadline >= 5
            std::thread::sleep(Duration::from_millis(1500)); // clock 3..4: past the first deadline, before the second
            let access_list: Arc<AccessListArcSwap> = Default::default();
            maps.clean(&config, &access_list, start);
            out.clear();
            maps.handle_announce_request(&config, &mut rng, &mut out, start, meta(0, 2), req(h, [2u8; 20], None, Some(1)));
            let (c, i) = counts(&out);
            assert_eq!(c + i, 2, "announce must set deadline = now + max_peer_age (re-announced peer with left {:?} expired early)", left);
        }
    }

    /// C09: a forwarded answer is addressed to the OFFERING peer's (socket worker, connection).
    #[test]
    fn c09_answer_addressed_to_offerer() {
        use aquatic_ws_protocol::incoming::AnnounceRequestOffer;
        let config = Config::default();
        let mut rng = SmallRng::seed_from_u64(1);
        let start = ServerStartInstant::new();
        let mut maps = TorrentMaps::new(0);
        let mut out = Vec::new();
        let (h, offerer, answerer) = ([7u8; 20], [1u8; 20], [2u8; 20]);
        // answerer is stored first, on worker 1 slot 4; offerer on worker 0 slot 9
        maps.handle_announce_request(&config, &mut rng, &mut out, start, meta(1, 4), req(h, answerer, Some(AnnounceEvent::Started), Some(1)));
        let mut r = req(h, offerer, Some(AnnounceEvent::Started), Some(1));
        let oid = OfferId([5u8; 20]);
        r.offers = Some(vec![AnnounceRequestOffer { offer: RtcOffer { t: RtcOfferType::Offer, sdp: "o".into() }, offer_id: oid }]);
        out.clear();
        maps.handle_announce_request(&config, &mut rng, &mut out, start, meta(0, 9), r);
        assert!(matches!(&out[0].1, OutMessage::OfferOutMessage(_)), "offer forwarded");
        assert_eq!((out[0].0.out_message_consumer_id.0, out[0].0.connection_id), (1, meta(1, 4).connection_id), "offer must go to the receiving peer's own connection");
        let mut a = req(h, answerer, None, Some(1));
        a.answer = Some(RtcAnswer { t: RtcAnswerType::Answer, sdp: "a".into() });
        a.answer_to_peer_id = Some(PeerId(offerer));
        a.answer_offer_id = Some(oid);
        out.clear();
        maps.handle_announce_request(&config, &mut rng, &mut out, start, meta(1, 4), a.clone());
        assert!(matches!(&out[0].1, OutMessage::AnswerOutMessage(_)), "answer forwarded");
        assert_eq!((out[0].0.out_message_consumer_id.0, out[0].0.connection_id), (0, meta(0, 9).connection_id), "answer must go to the offering peer's connection only");
        // the same answer a second time finds no pending offer
        out.clear();
        maps.handle_announce_request(&config, &mut rng, &mut out, start, meta(1, 4), a);
        assert!(matches!(&out[0].1, OutMessage::ErrorResponse(_)), "answered offer still pending (could be answered twice)");
    }
}
