//! C01 / C02 / C20 (announce step): PeerMap::announce vs the set-of-entries reference.
use aquatic_udp::swarm::verif_harness as h;
use aquatic_udp_protocol::{Ipv4AddrBytes, Ipv6AddrBytes};

macro_rules! step {
    ($name:ident, $ip:ty, $n:literal, $b:literal, $unw:literal, $g:literal, $large:literal, $pc:literal) => {
        #[kani::proof]
        #[kani::unwind($unw)]
        #[kani::stub(crossbeam_channel::Sender::try_send, aquatic_udp::swarm::verif_harness::log_try_send)]
        fn $name() {
            h::peermap_announce_step::<$ip, $n, $b, $g>($large, $pc);
        }
    };
}

// name, ip, N, B=N+1, unwind=N+3, check groups (1 counts | 2 post-state | 4 reply list | 8 tally), large?, peer_clients?
step!(c01_announce_v4_small_n0, Ipv4AddrBytes, 0, 1, 3, 7, false, false);
step!(c01_announce_v4_small_n1, Ipv4AddrBytes, 1, 2, 4, 7, false, false);
step!(c01_announce_v4_small_n2, Ipv4AddrBytes, 2, 3, 5, 7, false, false);
// heap maps: counts + post-state (groups 1|2) and reply list (group 4) as separate queries
step!(c01_announce_v4_large_n3_state, Ipv4AddrBytes, 3, 4, 6, 3, true, false);
step!(c01_announce_v4_large_n3_reply, Ipv4AddrBytes, 3, 4, 6, 4, true, false);
step!(c01_announce_v4_large_n4_state, Ipv4AddrBytes, 4, 5, 7, 3, true, false);
step!(c01_announce_v4_large_n4_reply, Ipv4AddrBytes, 4, 5, 7, 4, true, false);
step!(c01_announce_v4_large_n5_state, Ipv4AddrBytes, 5, 6, 8, 3, true, false);
step!(c01_announce_v4_large_n5_reply, Ipv4AddrBytes, 5, 6, 8, 4, true, false);
step!(c01_announce_v6_small_n2, Ipv6AddrBytes, 2, 3, 5, 7, false, false);
step!(c01_announce_v6_large_n3_state, Ipv6AddrBytes, 3, 4, 6, 3, true, false);
// C20: statistics messages on, tally group only
step!(c20_tally_v4_small_n1, Ipv4AddrBytes, 1, 2, 4, 8, false, true);
step!(c20_tally_v4_small_n2, Ipv4AddrBytes, 2, 3, 5, 8, false, true);
step!(c20_tally_v4_large_n3, Ipv4AddrBytes, 3, 4, 6, 8, true, true);





#[cfg(verif_pb_c01)]
include!(env!("VERIF_PLAYBACK_FILE"));
